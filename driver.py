#!/usr/bin/env python3
"""Driver for the flussab runtime monitors.

  ./check Cxx --tier quick|thorough      run the registered check of property Cxx
  ./check Cxx --replay <file>            re-execute one recorded violating case
  ./check --build                        build every harness flavour (used by setup.sh)

Environment: VERIF_SEED (default 1), VERIF_TIER, VERIF_REPO (default /repo),
VERIF_TARGET_DIR (default harness/target), VERIF_JOBS (default 16).

Exit codes: 0 = the property held on everything explored; 1 = at least one violation not listed in
known_findings.json (each printed as `VIOLATION property=<id> replay=<path>`); 2 = inconclusive
(harness/build error, a worker crashed in a monitor for which a crash is not the property's own
violation, coverage floors not met, watchdog).  Never maps a timeout or harness error to a violation.
"""
import json, os, subprocess, sys, time, threading, hashlib, shutil, signal
from concurrent.futures import ThreadPoolExecutor

HERE = os.path.dirname(os.path.abspath(__file__))
sys.path.insert(0, HERE)
HARNESS = os.path.join(HERE, "harness")
REPO = os.environ.get("VERIF_REPO", "/repo")
TARGET = os.environ.get("VERIF_TARGET_DIR", os.path.join(HARNESS, "target"))
JOBS = int(os.environ.get("VERIF_JOBS", "16"))
SCRATCH = os.path.join(HERE, "scratch")


def log(*a):
    print(*a, file=sys.stderr, flush=True)


# ----------------------------------------------------------------------------- builds

def cargo_env():
    env = dict(os.environ)
    env["CARGO_NET_OFFLINE"] = "true"
    env["CARGO_TARGET_DIR"] = TARGET
    env["RUST_BACKTRACE"] = "0"
    env.pop("RUSTFLAGS", None)
    return env


# Package root used for cargo and as the workers' cwd. For /repo it is harness/ itself; for any other
# repository under test (mutation self-test) it is a shadow directory next to the scratch target
# dir (own Cargo.toml, sources symlinked), so concurrent runs against different repositories never
# share a manifest.
RUNROOT = HARNESS if REPO == "/repo" else TARGET + "-harness"


def gen_cargo_toml():
    src = open(os.path.join(HARNESS, "Cargo.toml.in")).read().replace("@REPO@", REPO)
    if RUNROOT != HARNESS:
        os.makedirs(os.path.join(RUNROOT, ".cargo"), exist_ok=True)
        link = os.path.join(RUNROOT, "src")
        if not os.path.islink(link):
            os.symlink(os.path.join(HARNESS, "src"), link)
        shutil.copy(os.path.join(HARNESS, ".cargo", "config.toml"), os.path.join(RUNROOT, ".cargo", "config.toml"))
        shutil.copy(os.path.join(HARNESS, "Cargo.lock"), os.path.join(RUNROOT, "Cargo.lock"))
    dst = os.path.join(RUNROOT, "Cargo.toml")
    if not os.path.exists(dst) or open(dst).read() != src:
        open(dst, "w").write(src)
    lock = os.path.join(RUNROOT, "Cargo.lock")
    if not os.path.exists(lock):
        shutil.copy(os.path.join(REPO, "Cargo.lock"), lock)


_built = {}
_build_lock = threading.Lock()


def build(flavour):
    """flavour: chk | rel | asan | miri-san | miri-chk. Returns argv prefix that runs `mon`."""
    with _build_lock:
        if flavour in _built:
            return _built[flavour]
        gen_cargo_toml()
        env = cargo_env()
        t0 = time.time()
        if flavour in ("chk", "rel"):
            cmd = ["cargo", "build", "--quiet", "--profile", flavour, "--bin", "mon"]
            r = subprocess.run(cmd, cwd=RUNROOT, env=env, capture_output=True, text=True)
            prefix = [os.path.join(TARGET, flavour, "mon")]
        elif flavour == "asan":
            env["RUSTFLAGS"] = "-Zsanitizer=address -Cforce-frame-pointers=yes"
            env["CARGO_TARGET_DIR"] = TARGET + "-asan"
            cmd = ["cargo", "+nightly", "build", "--quiet", "--profile", "san", "--bin", "mon",
                   "--target", "x86_64-unknown-linux-gnu"]
            r = subprocess.run(cmd, cwd=RUNROOT, env=env, capture_output=True, text=True)
            prefix = [os.path.join(TARGET + "-asan", "x86_64-unknown-linux-gnu", "san", "mon")]
        elif flavour in ("miri-san", "miri-chk"):
            prof = flavour.split("-")[1]
            env["CARGO_TARGET_DIR"] = TARGET + "-miri"
            env["MIRIFLAGS"] = "-Zmiri-disable-isolation"
            cmd = ["cargo", "+nightly", "miri", "run", "--quiet", "--profile", prof, "--bin", "mon", "--",
                   "distinct"]
            r = subprocess.run(cmd, cwd=RUNROOT, env=env, capture_output=True, text=True)
            prefix = ["cargo", "+nightly", "miri", "run", "--quiet", "--profile", prof, "--bin", "mon", "--"]
        else:
            raise SystemExit("unknown flavour " + flavour)
        if r.returncode != 0:
            log(r.stdout[-4000:])
            log(r.stderr[-8000:])
            inconclusive("build of flavour %s failed" % flavour)
        log("[build %s: %.1fs]" % (flavour, time.time() - t0))
        _built[flavour] = prefix
        return prefix


def run_env(flavour):
    env = cargo_env()
    if flavour == "asan":
        env["ASAN_OPTIONS"] = "halt_on_error=1:abort_on_error=1:detect_leaks=1:allocator_may_return_null=1"
        env["CARGO_TARGET_DIR"] = TARGET + "-asan"
    if flavour.startswith("miri"):
        env["CARGO_TARGET_DIR"] = TARGET + "-miri"
        env["MIRIFLAGS"] = "-Zmiri-disable-isolation"
    return env


def inconclusive(reason):
    print("INCONCLUSIVE reason=%s" % reason, flush=True)
    sys.exit(2)


# ----------------------------------------------------------------------------- workers

class Job:
    """One monitor invocation family: `mon <cmd> ...` sharded over `nshards` processes."""

    def __init__(self, name, flavour, cmd, count, params=None, nshards=None, cpu_limit=0,
                 crash_is_violation=False, wall_limit=3600, valgrind=False):
        self.name, self.flavour, self.cmd, self.count = name, flavour, cmd, int(count)
        self.params = dict(params or {})
        self.nshards = nshards or JOBS
        self.nshards = max(1, min(self.nshards, self.count))
        self.cpu_limit, self.crash_is_violation, self.wall_limit = cpu_limit, crash_is_violation, wall_limit
        self.valgrind = valgrind


def argv_for(job, seed, shard, start, only=None, journal=None, hashfile=None):
    prefix = build(job.flavour)
    if job.valgrind:
        prefix = ["valgrind", "--quiet", "--error-exitcode=97", "--errors-for-leak-kinds=definite",
                  "--leak-check=full"] + prefix
    a = prefix + [job.cmd, "--seed", str(seed), "--shard", str(shard), "--nshards", str(job.nshards),
                  "--count", str(job.count), "--from", str(start)]
    if only is not None:
        a += ["--only", str(only)]
    if journal:
        a += ["--journal", journal]
    if job.cpu_limit:
        a += ["--cpu-limit", str(job.cpu_limit)]
    for k, v in sorted(job.params.items()):
        a.append("%s=%s" % (k, v))
    if hashfile:
        a.append("hashfile=%s" % hashfile)
    return a


def read_journal(path, stderr_text):
    idx = None
    try:
        if path and os.path.exists(path):
            t = open(path, "rb").read().decode("ascii", "replace")
            if t.startswith("J"):
                idx = int(t[1:].strip())
    except Exception:
        pass
    if idx is None:
        for line in stderr_text.splitlines():
            if line.startswith("J") and line[1:].strip().isdigit():
                idx = int(line[1:].strip())
    return idx


def run_shard(job, seed, shard, workdir):
    """Runs one shard to completion, restarting after crashes. Returns dict of results."""
    res = {"V": [], "K": [], "H": [], "S": [], "crashes": [], "timeouts": 0}
    start = 0
    tag = "%s-%d" % (job.name, shard)
    journal = os.path.join(workdir, tag + ".journal") if not job.flavour.startswith("miri") else None
    hashfile = os.path.join(workdir, tag + ".hashes") if not job.flavour.startswith("miri") else None
    restarts = 0
    while True:
        if journal and os.path.exists(journal):
            os.remove(journal)
        argv = argv_for(job, seed, shard, start, journal=journal, hashfile=hashfile)
        errpath = os.path.join(workdir, tag + ".stderr")
        with open(errpath, "wb") as ef:
            try:
                p = subprocess.run(argv, cwd=RUNROOT, env=run_env(job.flavour), stdout=subprocess.PIPE,
                                   stderr=ef, timeout=job.wall_limit)
                rc, out = p.returncode, p.stdout.decode("utf-8", "replace")
            except subprocess.TimeoutExpired as e:
                res["timeouts"] += 1
                res["crashes"].append({"job": job.name, "shard": shard, "watchdog": True})
                out = (e.stdout or b"").decode("utf-8", "replace")
                parse_lines(out, res, job)
                return res
        parse_lines(out, res, job)
        if rc == 0:
            return res
        # crashed: attribute to the journalled case, restart after it
        try:
            # only the tail matters (sanitizer report / abort message)
            sz = os.path.getsize(errpath)
            with open(errpath, "rb") as f:
                f.seek(max(0, sz - 20000))
                err_tail = f.read().decode("utf-8", "replace")
        except Exception:
            err_tail = ""
        idx = read_journal(journal, err_tail)
        crash = {"job": job.name, "flavour": job.flavour, "cmd": job.cmd, "shard": shard, "nshards": job.nshards,
                 "index": idx, "returncode": rc,
                 "signal": (signal.Signals(-rc).name if rc < 0 and -rc in [s.value for s in signal.Signals] else None),
                 "stderr_tail": "\n".join(l for l in err_tail.splitlines() if not l.startswith("J "))[-3000:],
                 "params": job.params, "count": job.count}
        res["crashes"].append(crash)
        restarts += 1
        # a handful of attributed deaths is enough evidence where a death is the property's violation;
        # elsewhere keep going (skipped cases) but not forever
        if job.crash_is_violation and restarts >= 3:
            return res
        if idx is None or restarts > 50:
            crash["unattributed"] = True
            return res
        start = idx + 1
        if start >= job.count:
            return res


def parse_lines(out, res, job):
    for line in out.splitlines():
        if len(line) > 2 and line[1] == " " and line[0] in "VKHS":
            try:
                j = json.loads(line[2:])
            except Exception:
                res["H"].append({"unparsable": line[:300]})
                continue
            j["job"] = job.name
            j["flavour"] = job.flavour
            res[line[0]].append(j)


# ----------------------------------------------------------------------------- merging

def merge(results):
    counters, maxima, samples, extra = {}, {}, [], {}
    distinct_sum = 0
    dropped = 0
    keys = set()
    for r in results:
        for s in r["S"]:
            keys.update(s.get("keyset", []))
            for k, v in s.get("counters", {}).items():
                counters[k] = counters.get(k, 0) + v
            for k, v in s.get("maxima", {}).items():
                maxima[k] = max(maxima.get(k, 0), v)
            distinct_sum += s.get("distinct", 0)
            dropped += s.get("hashes_dropped", 0)
            for x in s.get("samples", []):
                if len(samples) < 6:
                    samples.append(x)
            for k, v in s.get("extra", {}).items():
                extra.setdefault(k, v)
    counters["distinct_keys"] = len(keys)
    return counters, maxima, samples, extra, distinct_sum, dropped


def distinct_from_files(workdir, jobnames):
    files = [os.path.join(workdir, f) for f in sorted(os.listdir(workdir))
             if f.endswith(".hashes") and f.rsplit("-", 1)[0] in jobnames]
    if not files:
        return None
    prefix = build("rel")
    r = subprocess.run(prefix + ["distinct"] + files, capture_output=True, text=True, env=run_env("rel"))
    try:
        return int(r.stdout.strip())
    except Exception:
        return None


def load_known():
    p = os.path.join(HERE, "known_findings.json")
    try:
        return json.load(open(p)).get("known", [])
    except Exception:
        return []


def finding_matches(k, prop, v):
    """k: {"property":..,"job":..,"kind":..,"sig":.., "what":..}; every given key must match exactly."""
    if k.get("property") != prop:
        return False
    for key in ("job", "kind", "sig"):
        if key in k and k[key] != v.get(key) and k[key] != (v.get("detail") or {}).get(key):
            return False
    return True


def write_replay(prop, seed, tier, v, n):
    d = os.path.join(HERE, "replays")
    os.makedirs(d, exist_ok=True)
    h = hashlib.sha1(json.dumps(v, sort_keys=True).encode()).hexdigest()[:10]
    import re
    kind = re.sub(r"[^A-Za-z0-9_]+", "_", v.get("kind", "crash"))[:24].strip("_")
    path = os.path.join(d, "%s-%s-%s.json" % (prop, kind, h))
    v = dict(v)
    v["property"] = prop
    v["seed"] = v.get("seed", seed)
    v["tier"] = tier
    json.dump(v, open(path, "w"), indent=1)
    return path


# ----------------------------------------------------------------------------- main flows

def run_property(prop, tier, seed):
    import plans
    plan = plans.plan(prop, tier, seed)
    t0 = time.time()
    workdir = os.path.join(SCRATCH, "%s-%s-%d-%d" % (prop, tier, seed, os.getpid()))
    shutil.rmtree(workdir, ignore_errors=True)
    os.makedirs(workdir)
    jobs = plan["jobs"]
    # builds first (sequential, cached)
    for fl in sorted({j.flavour for j in jobs}):
        build(fl)
    tasks = [(j, s) for j in jobs for s in range(j.nshards)]
    results = {}
    with ThreadPoolExecutor(max_workers=JOBS) as ex:
        futs = {ex.submit(run_shard, j, seed, s, workdir): (j, s) for (j, s) in tasks}
        for f in futs:
            j, s = futs[f]
            results[(j.name, s)] = f.result()
    allres = list(results.values())
    counters, maxima, samples, extra, distinct_sum, dropped = merge(allres)
    # distinct across shards, for the jobs that define the property's case space
    primary = plan.get("primary_jobs") or [j.name for j in jobs if not j.flavour.startswith("miri")]
    d = distinct_from_files(workdir, set(primary))
    distinct = d if d is not None else distinct_sum
    violations, skipped, harness_errs, crashes = [], [], [], []
    jobmap = {j.name: j for j in jobs}
    for r in allres:
        violations += r["V"]
        skipped += r["K"]
        harness_errs += r["H"]
        for c in r["crashes"]:
            crashes.append(c)
    inconclusive_reasons = []
    for c in crashes:
        j = jobmap[c["job"]]
        if c.get("watchdog"):
            inconclusive_reasons.append("watchdog fired for %s shard %s" % (c["job"], c["shard"]))
        elif c.get("unattributed"):
            inconclusive_reasons.append("worker %s died without a journalled case (rc=%s): %s" % (
                c["job"], c.get("returncode"), (c.get("stderr_tail") or "")[-300:]))
        elif j.crash_is_violation:
            violations.append({"job": c["job"], "flavour": c["flavour"], "cmd": c["cmd"], "seed": seed,
                               "index": c["index"], "kind": "crash:" + str(c.get("signal") or c.get("returncode")),
                               "params": c["params"], "nshards": c["nshards"], "shard": c["shard"],
                               "count": c["count"],
                               "detail": {"returncode": c["returncode"], "signal": c["signal"],
                                          "stderr_tail": c["stderr_tail"]}})
        else:
            skipped.append({"job": c["job"], "index": c["index"], "crash": c.get("signal") or c.get("returncode"),
                            "stderr_tail": (c.get("stderr_tail") or "")[-500:]})
    if harness_errs:
        inconclusive_reasons.append("harness errors: %s" % json.dumps(harness_errs[:3])[:600])
    # every planned worker must have delivered a summary for its last segment
    for (jn, s), r in results.items():
        if not r["S"] and not any(c for c in r["crashes"]):
            inconclusive_reasons.append("worker %s/%d produced no summary" % (jn, s))
    # coverage floors
    for k, floor in plan.get("floors", {}).items():
        have = distinct if k == "distinct_nontrivial" else counters.get(k, 0)
        if have < floor:
            inconclusive_reasons.append("coverage floor not met: %s=%d < %d" % (k, have, floor))
    known = load_known()
    new_v, known_hits = [], {}
    for v in violations:
        hit = None
        for k in known:
            if finding_matches(k, prop, v):
                hit = k
                break
        if hit:
            known_hits[hit["what"]] = hit
        else:
            new_v.append(v)
    if skipped and not new_v:
        inconclusive_reasons.append("%d case(s) could not be judged because the code under test panicked/crashed "
                                    "(not this property's violation): %s" % (len(skipped), json.dumps(skipped[:2])[:600]))
    wall = time.time() - t0
    ev = {
        "property_id": prop, "tier": tier, "seed": seed, "level": plan["level"],
        "coverage": {
            "evaluations": int(sum(counters.get(k, 0) for k in plan.get("eval_counters", ["cases"]))),
            "distinct_nontrivial": int(distinct),
            "rule": plan["rule"] + (" [hash set capped: %d further hashes not stored, count is a lower bound]" % dropped if dropped else ""),
            "samples": samples or [{"note": "no sample recorded"}],
            "counters": counters, "maxima": maxima, "extra": extra,
            "layers": [{"job": j.name, "build": j.flavour, "monitor": j.cmd, "cases_planned": j.count,
                        "shards": j.nshards, "params": j.params, "valgrind": j.valgrind} for j in jobs],
            "skipped_cases": len(skipped), "worker_crashes": len(crashes),
        },
        "assumptions": plan.get("assumptions", []),
        "wall_s": round(wall, 2),
        "violations": len(new_v),
        "known_findings_hit": sorted(known_hits.keys()),
        "inconclusive": inconclusive_reasons,
        "repo": REPO,
    }
    if plan.get("exhaustive"):
        ev["coverage"]["exhaustive"] = True
    os.makedirs(os.path.join(HERE, "evidence"), exist_ok=True)
    if REPO == "/repo" and not os.environ.get("VERIF_NO_EVIDENCE"):
        json.dump(ev, open(os.path.join(HERE, "evidence", prop + ".json"), "w"), indent=1)
    shutil.rmtree(workdir, ignore_errors=True)
    for what in sorted(known_hits):
        print("KNOWN-FINDING: property=%s %s" % (prop, what), flush=True)
    log("[%s %s seed=%d] evaluations=%d distinct_nontrivial=%d violations=%d skipped=%d wall=%.1fs" % (
        prop, tier, seed, ev["coverage"]["evaluations"], distinct, len(new_v), len(skipped), wall))
    if new_v:
        seen = set()
        for v in new_v[:10]:
            path = write_replay(prop, seed, tier, v, len(seen))
            if path in seen:
                continue
            seen.add(path)
            print("VIOLATION property=%s replay=%s" % (prop, path), flush=True)
            log("  kind=%s job=%s index=%s detail=%s" % (v.get("kind"), v.get("job"), v.get("index"),
                                                      json.dumps(v.get("detail"))[:700]))
        sys.exit(1)
    if inconclusive_reasons:
        for r in inconclusive_reasons[:5]:
            log("  inconclusive: " + r)
        inconclusive(inconclusive_reasons[0].replace("\n", " ")[:300])
    sys.exit(0)


def replay(prop, path):
    import plans
    v = json.load(open(path))
    seed = int(v.get("seed", 1))
    j = Job(v.get("job", "replay"), v.get("flavour", "chk"), v["cmd"], int(v.get("count", v["index"] + 1)),
            params=v.get("params", {}), nshards=1,
            cpu_limit=plans.CPU_LIMIT.get(v["cmd"], 0), crash_is_violation=True)
    j.nshards = 1
    argv = argv_for(j, seed, 0, 0, only=int(v["index"]))
    p = subprocess.run(argv, cwd=RUNROOT, env=run_env(j.flavour), capture_output=True, text=True)
    vio = [l for l in p.stdout.splitlines() if l.startswith("V ")]
    for l in vio:
        log(l[:2000])
    if p.returncode != 0:
        log("worker exited with %s\n%s" % (p.returncode, p.stderr[-3000:]))
        if v.get("kind", "").startswith("crash"):
            print("VIOLATION property=%s replay=%s" % (prop, path), flush=True)
            sys.exit(1)
        inconclusive("replay worker crashed (rc=%s)" % p.returncode)
    if vio:
        print("VIOLATION property=%s replay=%s" % (prop, path), flush=True)
        sys.exit(1)
    log("replay: no violation reproduced on the current tree")
    sys.exit(0)


def main():
    a = sys.argv[1:]
    if a and a[0] == "--build":
        for fl in (a[1:] or ["chk", "rel"]):
            build(fl)
        return
    if not a:
        print(__doc__)
        sys.exit(2)
    prop = a[0]
    tier = os.environ.get("VERIF_TIER", "quick")
    seed = int(os.environ.get("VERIF_SEED", "1"))
    i = 1
    rp = None
    while i < len(a):
        if a[i] == "--tier":
            tier = a[i + 1]; i += 2
        elif a[i] == "--seed":
            seed = int(a[i + 1]); i += 2
        elif a[i] == "--replay":
            rp = a[i + 1]; i += 2
        else:
            raise SystemExit("unknown argument " + a[i])
    if rp:
        replay(prop, rp)
    else:
        run_property(prop, tier, seed)


if __name__ == "__main__":
    main()
