//! Counting global allocator: live / peak / total bytes, largest single request and an optional
//! per-request ceiling. It does not remember addresses, so it hides nothing from ASan / memcheck.

use std::alloc::{GlobalAlloc, Layout, System};
use std::sync::atomic::{AtomicBool, AtomicUsize, Ordering::Relaxed};

pub struct Counting;

pub static LIVE: AtomicUsize = AtomicUsize::new(0);
pub static PEAK: AtomicUsize = AtomicUsize::new(0);
pub static TOTAL: AtomicUsize = AtomicUsize::new(0);
pub static NALLOC: AtomicUsize = AtomicUsize::new(0);
pub static LARGEST: AtomicUsize = AtomicUsize::new(0);
/// Requests above this are refused (null), which makes Rust abort; 0 = unlimited.
pub static CEILING: AtomicUsize = AtomicUsize::new(0);
/// Requests that would take the live heap above this are refused as well; 0 = unlimited.
pub static LIVE_CEILING: AtomicUsize = AtomicUsize::new(0);
pub static REFUSED: AtomicBool = AtomicBool::new(false);
pub static REFUSED_SIZE: AtomicUsize = AtomicUsize::new(0);

#[inline]
fn on_alloc(size: usize) {
    let live = LIVE.fetch_add(size, Relaxed) + size;
    TOTAL.fetch_add(size, Relaxed);
    NALLOC.fetch_add(1, Relaxed);
    if live > PEAK.load(Relaxed) {
        PEAK.store(live, Relaxed);
    }
    if size > LARGEST.load(Relaxed) {
        LARGEST.store(size, Relaxed);
    }
}

#[inline]
fn refuse(size: usize) -> bool {
    let c = CEILING.load(Relaxed);
    let lc = LIVE_CEILING.load(Relaxed);
    if (c != 0 && size > c) || (lc != 0 && size > 4096 && LIVE.load(Relaxed).saturating_add(size) > lc) {
        REFUSED.store(true, Relaxed);
        REFUSED_SIZE.store(size, Relaxed);
        // journal without allocating
        let mut buf = [0u8; 64];
        let msg = b"ALLOC-REFUSED ";
        buf[..msg.len()].copy_from_slice(msg);
        let mut n = msg.len();
        let mut digits = [0u8; 20];
        let mut d = 0;
        let mut v = size;
        loop {
            digits[d] = b'0' + (v % 10) as u8;
            d += 1;
            v /= 10;
            if v == 0 {
                break;
            }
        }
        while d > 0 {
            d -= 1;
            buf[n] = digits[d];
            n += 1;
        }
        buf[n] = b'\n';
        n += 1;
        unsafe {
            crate::work::sys_write(2, buf.as_ptr(), n);
        }
        true
    } else {
        false
    }
}

unsafe impl GlobalAlloc for Counting {
    unsafe fn alloc(&self, l: Layout) -> *mut u8 {
        if refuse(l.size()) {
            return std::ptr::null_mut();
        }
        let p = System.alloc(l);
        if !p.is_null() {
            on_alloc(l.size());
        }
        p
    }
    unsafe fn alloc_zeroed(&self, l: Layout) -> *mut u8 {
        if refuse(l.size()) {
            return std::ptr::null_mut();
        }
        let p = System.alloc_zeroed(l);
        if !p.is_null() {
            on_alloc(l.size());
        }
        p
    }
    unsafe fn dealloc(&self, p: *mut u8, l: Layout) {
        System.dealloc(p, l);
        LIVE.fetch_sub(l.size(), Relaxed);
    }
    unsafe fn realloc(&self, p: *mut u8, l: Layout, new: usize) -> *mut u8 {
        if new > l.size() && refuse(new) {
            return std::ptr::null_mut();
        }
        let q = System.realloc(p, l, new);
        if !q.is_null() {
            LIVE.fetch_sub(l.size(), Relaxed);
            on_alloc(new);
        }
        q
    }
}

/// Snapshot helpers for a measurement window.
pub struct Window {
    pub base: usize,
}

impl Window {
    pub fn open() -> Window {
        let live = LIVE.load(Relaxed);
        PEAK.store(live, Relaxed);
        LARGEST.store(0, Relaxed);
        Window { base: live }
    }
    /// peak live bytes above the baseline since `open`
    pub fn peak(&self) -> usize {
        PEAK.load(Relaxed).saturating_sub(self.base)
    }
    pub fn live(&self) -> usize {
        LIVE.load(Relaxed).saturating_sub(self.base)
    }
    pub fn largest(&self) -> usize {
        LARGEST.load(Relaxed)
    }
}

pub fn set_ceiling(bytes: usize) {
    CEILING.store(bytes, Relaxed);
}

pub fn set_live_ceiling(bytes: usize) {
    LIVE_CEILING.store(bytes, Relaxed);
}
