use fvh::work::{self, Args, Monitor};

#[global_allocator]
static GLOBAL: fvh::alloc::Counting = fvh::alloc::Counting;

fn main() {
    let argv: Vec<String> = std::env::args().skip(1).collect();
    if argv.is_empty() {
        eprintln!("usage: mon <cmd> [--seed S --shard i --nshards n --count N --from k] [k=v ...]");
        std::process::exit(2);
    }
    if argv[0] == "distinct" {
        println!("{}", work::distinct_union(&argv[1..]));
        return;
    }
    let args = Args::parse(&argv);
    let mut mon: Box<dyn Monitor> = match args.cmd.as_str() {
        "c15" => Box::new(fvh::c15::C15 {
            max_len: args.p_u64("max_len", 6) as usize,
            subset: args.p_bool("subset"),
        }),
        "c02" | "c14r" => Box::new(fvh::c02::C02 {
            only_discipline: args.p_bool("only_discipline"),
            hostile: args.cmd == "c14r",
            max_ops: args.p_u64("max_ops", 600) as usize,
            max_stream: args.p_u64("max_stream", 1 << 20) as usize,
        }),
        "c11" | "c14w" => Box::new(fvh::c11::C11::new(
            args.cmd == "c14w",
            args.p_u64("max_ops", 300) as usize,
            args.p_u64("max_faults", 24) as usize,
        )),
        "c01" => Box::new(fvh::c01::C01 {
            max_size: args.p_u64("max_size", 3000) as usize,
            light: args.p_bool("light"),
        }),
        "c03" => Box::new(fvh::c03::C03 {}),
        "c04" => Box::new(fvh::c04::C04 {
            max_len: args.p_u64("max_len", 2048) as usize,
        }),
        "c05" => Box::new(fvh::c05::C05::new(
            args.p_u64("max_size", 3000) as usize,
            args.p_bool("quiet"),
        )),
        "c10" => Box::new(fvh::c10::C10 {
            mib: args.p_u64("mib", 8),
            log: args.p_bool("log"),
            raw: args.p_bool("raw"),
        }),
        "c12" => Box::new(fvh::c12::C12 {
            mode: args.p_str("mode", "wellformed"),
            rounds: args.p_u64("rounds", 4) as usize,
            deep_log2: args.p_u64("deep_log2", 16) as u32,
        }),
        "c09" => Box::new(fvh::c09::C09 {}),
        "c06" => Box::new(fvh::c06::C06 {}),
        "c08" => Box::new(fvh::c08::C08 {
            mode: args.p_str("mode", "range"),
        }),
        "c07" => Box::new(fvh::c07::C07 {
            all_formats: args.p_bool("all"),
        }),
        "c16" => Box::new(fvh::c16::C16 {
            mode: args.p_str("mode", "enum"),
            max_len: args.p_u64("max_len", 6) as usize,
        }),
        "c13" => Box::new(fvh::c13::C13 {
            mode: args.p_str("mode", "boundary"),
            kernel_len: args.p_u64("kernel_len", 6) as usize,
        }),
        other => {
            eprintln!("unknown monitor {other}");
            std::process::exit(2);
        }
    };
    work::run(&args, mon.as_mut());
}
