use fvh::work::{self, Args, Monitor};

#[global_allocator]
static GLOBAL: fvh::alloc::Counting = fvh::alloc::Counting;

fn main() {
    let argv: Vec<String> = std::env::args().skip(1).collect();
    if argv.is_empty() {
        eprintln!("usage: mon <cmd> [--seed S --shard i --nshards n --count N --from k] [k=v ...]");
        std::process::exit(2);
    }
    if argv[0] == "distinct" {
        println!("{}", work::distinct_union(&argv[1..]));
        return;
    }
    let args = Args::parse(&argv);
    let mut mon: Box<dyn Monitor> = match args.cmd.as_str() {
        "c15" => Box::new(fvh::c15::C15 {
            max_len: args.p_u64("max_len", 6) as usize,
        }),
        other => {
            eprintln!("unknown monitor {other}");
            std::process::exit(2);
        }
    };
    work::run(&args, mon.as_mut());
}
