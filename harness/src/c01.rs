//! C01 - parse results do not depend on how the input bytes arrive.
//!
//! Differential oracle: the trace (canonical items + End | Syntax(line,col) | Io) of a parser on a
//! byte string under any read schedule / chunk size / construction path must equal the trace of the
//! one-shot run with the default chunk size. AIGER is additionally driven through parse() and
//! through the section readers; both must agree.

use crate::corpus::{self, Class};
use crate::drive::{self, Ctor, PCfg, Trace, PK};
use crate::json::J;
use crate::prng::{Rng, H};
use crate::src::{Policy, Src};
use crate::work::{sut, Monitor, Report};
use std::rc::Rc;

pub struct C01 {
    pub max_size: usize,
    /// no every-offset split enumeration (for the slow Miri layer)
    pub light: bool,
}

pub const CHUNKS: [usize; 11] = [1, 2, 3, 7, 8, 9, 16, 17, 64, 1024, 16384];

fn is_tokenish(b: u8) -> bool {
    !matches!(b, b' ' | b'\t' | b'\r' | b'\n')
}

pub fn random_policy(rng: &mut Rng, len: usize) -> Policy {
    match rng.below(6) {
        0 => Policy::Fixed(1),
        1 => Policy::Fixed(*rng.pick(&[2usize, 3, 5, 7, 8, 9, 13, 16, 64, 4096])),
        2 => Policy::SplitAt(rng.usize(len + 1)),
        3 => Policy::Random {
            mean_x10: *rng.pick(&[15u64, 40, 160, 2000]),
            interrupts: false,
        },
        4 => Policy::Random {
            mean_x10: *rng.pick(&[15u64, 40, 160, 2000]),
            interrupts: true,
        },
        _ => Policy::OneShot,
    }
}

struct Run {
    policy: Policy,
    ctor: Ctor,
    cfg: PCfg,
}

impl Monitor for C01 {
    fn case(&mut self, idx: u64, rng: &mut Rng, rep: &mut Report) {
        let pk = drive::ALL_PK[(idx % 7) as usize];
        let cfg = drive::random_cfg_skip(rng, pk);
        let size = match rng.below(400) {
            0 => self.max_size,           // a few large documents: default chunk size realigns
            1..=20 => 300.min(self.max_size),
            _ => 10,
        };
        let input = corpus::draw(rng, cfg, size);
        let bytes = &input.bytes;
        let data = Rc::new(bytes.clone());
        let len = bytes.len();
        rep.inc("inputs");
        rep.inc(&format!("class:{}", input.class.name()));
        rep.inc(&format!("parser:{}", pk.name()));
        if cfg.skip != 0 {
            rep.inc("aiger_runs_skipping_sections");
        }
        rep.count("input_bytes", len as u64);
        // reference: one-shot, default chunk
        let reference: Trace = sut(|| {
            drive::run_collect(cfg, Ctor::Chunk(16384), Src::new(data.clone(), Policy::OneShot, 0))
        });
        match &reference.outcome {
            drive::Outcome::End => rep.inc("ref_accepted"),
            drive::Outcome::Syntax { .. } => rep.inc("ref_syntax_error"),
            drive::Outcome::Io(_) => rep.inc("ref_io"),
        }
        let mut runs: Vec<Run> = vec![];
        // 1-byte reads with chunk size 1: every SWAR scanner takes its byte-wise cold path
        runs.push(Run {
            policy: Policy::Fixed(1),
            ctor: Ctor::Chunk(1),
            cfg,
        });
        let extra = if len > 20_000 { 2 } else { 5 };
        for _ in 0..extra {
            let ctor = if rng.chance(1, 2) {
                drive::random_ctor(rng)
            } else {
                Ctor::Chunk(*rng.pick(&CHUNKS))
            };
            rep.inc(match ctor {
                Ctor::Chunk(_) => "ctor:new",
                Ctor::FromRead => "ctor:from_read",
                Ctor::FromBoxed => "ctor:from_boxed_dyn_read",
                Ctor::FromBufReader(_) => "ctor:from_buf_reader",
                Ctor::AfterPreamble(..) => "ctor:new_on_advanced_reader",
                Ctor::Prefetched(_) => "ctor:new_on_reader_that_looked_ahead_to_the_end",
            });
            runs.push(Run {
                policy: random_policy(rng, len),
                ctor,
                cfg,
            });
        }
        if pk.is_aiger() && cfg.skip == 0 {
            let mut other = cfg;
            other.sections = !cfg.sections;
            runs.push(Run {
                policy: Policy::OneShot,
                ctor: Ctor::Chunk(16384),
                cfg: other,
            });
            runs.push(Run {
                policy: random_policy(rng, len),
                ctor: Ctor::Chunk(*rng.pick(&CHUNKS)),
                cfg: other,
            });
        }
        // two-part splits at every offset for small inputs (a refill boundary inside every token once)
        if len <= 256 && !self.light && rng.chance(1, 3) {
            for i in 1..len {
                runs.push(Run {
                    policy: Policy::SplitAt(i),
                    ctor: Ctor::Chunk(if i % 2 == 0 { 16384 } else { 64 }),
                    cfg,
                });
            }
        }
        for run in &runs {
            let seed = rng.next();
            let mut src = Src::new(data.clone(), run.policy.clone(), seed).with_boundaries();
            let mut storm = String::new();
            if rng.chance(1, 8) {
                // a long run of consecutive Interrupted results before one of the first reads (possibly
                // the one that reports the end): "transiently interrupted" has no length limit
                let at = 1 + rng.below(8);
                let n = if rng.chance(1, 40) {
                    *rng.pick(&[1000u32, 4097, 70000])
                } else {
                    *rng.pick(&[64u32, 127, 128, 129, 130, 255, 256, 257])
                };
                src = src.with_storm(at, n);
                storm = format!(", {} consecutive Interrupted results at read call {}", n, at);
                rep.inc("runs_with_an_interrupt_storm");
            }
            let tr: Trace = sut(|| drive::run_collect(run.cfg, run.ctor, src.clone()));
            rep.inc("pairs");
            let log = src.log();
            // parse() hands out its items only on success, the section readers one by one: on a
            // rejected input the two APIs are compared by outcome only
            let cross_api = run.cfg.sections != cfg.sections;
            let same = tr.outcome.key() == reference.outcome.key()
                && (tr.items == reference.items
                    || (cross_api && reference.outcome != drive::Outcome::End));
            if same && tr.outcome != reference.outcome {
                rep.inc("message_text_differs_only");
            }
            // non-triviality: >= 2 successful reads, a boundary strictly inside a token, something returned
            let inside = log.boundaries.iter().any(|&b| {
                b > 0 && b < len && is_tokenish(bytes[b - 1]) && is_tokenish(bytes[b])
            });
            if log.ok_reads >= 2 && inside && (!tr.items.is_empty() || tr.outcome.is_syntax()) {
                rep.inc("nontrivial_pairs");
                rep.nontrivial(
                    H::new()
                        .b(bytes)
                        .u(run.cfg.code())
                        .u(seed)
                        .b(run.policy.describe().as_bytes())
                        .b(run.ctor.describe().as_bytes())
                        .get(),
                );
                if rep.want_sample() && len > 30 && input.class != Class::Arbitrary {
                    rep.sample(|| {
                        J::obj()
                            .set("parser", J::s(run.cfg.describe()))
                            .set("input", J::bytes(&bytes[..len.min(300)]))
                            .set("schedule", J::s(run.policy.describe()))
                            .set("ctor", J::s(run.ctor.describe()))
                            .set("read_calls", J::U(log.calls))
                            .set("items", J::u(tr.items.len()))
                            .set("outcome", J::s(tr.outcome.describe()))
                    });
                }
            }
            if log.interrupts > 0 {
                rep.count("interrupted_reads", log.interrupts);
            }
            if !same {
                let first = (0..tr.items.len().max(reference.items.len()))
                    .find(|&i| tr.items.get(i) != reference.items.get(i));
                rep.violation(
                    &format!(
                        "{}:{}",
                        pk.name(),
                        if first.is_some() { "items" } else { "outcome" }
                    ),
                    J::obj()
                        .set("parser", J::s(run.cfg.describe()))
                        .set("reference_parser", J::s(cfg.describe()))
                        .set("input", J::bytes(bytes))
                        .set("input_class", J::s(input.class.name()))
                        .set("schedule", J::s(format!("{}{}", run.policy.describe(), storm)))
                        .set("schedule_seed", J::U(seed))
                        .set("ctor", J::s(run.ctor.describe()))
                        .set("outcome", J::s(tr.outcome.describe()))
                        .set("reference_outcome", J::s(reference.outcome.describe()))
                        .set("items", J::u(tr.items.len()))
                        .set("reference_items", J::u(reference.items.len()))
                        .set(
                            "first_differing_item",
                            match first {
                                Some(i) => J::obj()
                                    .set("index", J::u(i))
                                    .set("got", J::s(tr.items.get(i).cloned().unwrap_or_else(|| "<none>".into())))
                                    .set(
                                        "reference",
                                        J::s(reference.items.get(i).cloned().unwrap_or_else(|| "<none>".into())),
                                    ),
                                None => J::Null,
                            },
                        ),
                );
                return;
            }
        }
    }
}
