//! C02 - the buffered reader is a loss-free, in-order window onto its source
//! (also the reader half of C09: read discipline; and with `hostile` the reader half of C14).
//!
//! A random operation history is applied to a bare `DeferredReader` and, in lock step, to a reference
//! model that holds only the accepted stream, a cursor and a mark. After EVERY operation the monitor
//! reads buf(), buf_len(), buf_ptr(), position(), mark(), is_complete(), is_at_end(), io_error() and
//! compares them with the model; the source's call log is checked against the read discipline.

use crate::json::{excerpt, J};
use crate::prng::{Rng, H};
use crate::src::{ident_data, Policy, Src};
use crate::work::{sut, sut_caught, Monitor, Report};
use flussab::DeferredReader;
use std::io::{BufRead, BufReader, Read};
use std::rc::Rc;

#[derive(Clone, Debug)]
pub enum Op {
    Request(usize),
    RequestByte,
    RequestByteAt(usize),
    RequestMore,
    Advance(usize),
    AdvanceWithBuf(usize),
    /// the unsafe variant, used per its contract (n <= buf_len())
    AdvanceUnchecked(usize),
    SetMark,
    SetMarkTo(usize),
    SetChunk(usize),
    CheckIoError,
    Observe,
    // hostile (C14)
    AdvancePast(usize),
    AdvanceWithBufPast(usize),
}

pub struct Sim {
    pub r: DeferredReader<'static>,
    pub src: Src,
    pub data: Rc<Vec<u8>>,
    // model
    pub stream: Vec<u8>,
    pub cursor: usize,
    pub mark: usize,
    pub eof_seen: bool,
    pub err_seen: bool,
    pub err_pending: bool,
    pub chunk: usize,
    // bookkeeping
    pub log_pos: usize,
    pub src_off: usize,
    pub lie_idx: usize,
    /// bytes of `stream` that came from a BufReader's internal buffer (not visible in the source log)
    pub leftover: usize,
    pub log_base_delivered: usize,
    pub cae_base: u64,
    pub exact: bool,
    pub variant: &'static str,
    // stats
    pub refills: u64,
    pub shorts: u64,
    pub mark_set_at: Option<usize>,
    pub refills_since_mark: u64,
    pub mark_far_checks: u64,
    pub panics_caught: u64,
    pub history: Vec<Op>,
}

pub struct Outcome {
    pub problems: Vec<String>,
}

impl Sim {
    pub fn new(rng: &mut Rng, n: usize, policy: Policy, end_fail: Option<usize>, hostile: bool) -> Sim {
        Sim::new_with(rng, n, policy, end_fail, hostile, false)
    }

    /// `big_bufreader`: construct through a BufReader that holds more than the reader's default chunk
    pub fn new_with(rng: &mut Rng, n: usize, policy: Policy, end_fail: Option<usize>, hostile: bool, big_bufreader: bool) -> Sim {
        let data = Rc::new(ident_data(n));
        let mut src = Src::new(data.clone(), policy, rng.next()).with_calls();
        if !hostile && rng.chance(1, 10) {
            // a long run of consecutive Interrupted results in front of one of the early reads
            src = src.with_storm(1 + rng.below(12), *rng.pick(&[127u32, 128, 129, 256, 257, 1000]));
        }
        if let Some(k) = end_fail {
            src = src.failing_at(k);
        } else if rng.chance(1, 6) && n > 0 {
            let k = rng.usize(n + 1);
            src = src.truncated_at(k);
        }
        if hostile {
            let mut st = src.0.borrow_mut();
            if rng.chance(1, 3) {
                st.lie_at_call = Some((1 + rng.below(12), 1 + rng.usize(64)));
            }
            if rng.chance(1, 5) {
                st.panic_at_call = Some(1 + rng.below(12));
            }
        }
        let variant = if big_bufreader { 4 } else { rng.below(5) };
        let mut stream = vec![];
        let mut leftover = 0;
        let mut src_off = 0;
        let r: DeferredReader<'static>;
        let vname;
        match variant {
            0 | 1 => {
                r = DeferredReader::from_read(src.clone());
                vname = "from_read";
            }
            2 => {
                r = DeferredReader::from_boxed_dyn_read(Box::new(src.clone()));
                vname = "from_boxed_dyn_read";
            }
            3 => {
                // BufReader that was never used: empty internal buffer
                // (capacity 0 is legal too)
                let br = BufReader::with_capacity(if rng.chance(1, 4) { rng.usize(2) } else { 1 + rng.usize(64) }, src.clone());
                r = DeferredReader::from_buf_reader(br);
                vname = "from_buf_reader(empty)";
            }
            _ => {
                // partly consumed BufReader that still holds buffered bytes
                // small buffers, and buffers holding more than the reader takes over in one refill
                // (its default chunk is 16384)
                let cap = if big_bufreader || rng.chance(1, 3) {
                    *rng.pick(&[4096usize, 16383, 16384, 16385, 20000, 40000, 70000][if big_bufreader { 3 } else { 0 }..])
                } else {
                    2 + rng.usize(200)
                };
                let mut br = BufReader::with_capacity(cap, src.clone());
                let mut consumed = 0usize;
                // never let the hostile behaviours fire inside the BufReader itself
                {
                    let mut st = src.0.borrow_mut();
                    if let Some((c, l)) = st.lie_at_call {
                        st.lie_at_call = Some((c + 8, l));
                    }
                    if let Some(c) = st.panic_at_call {
                        st.panic_at_call = Some(c + 8);
                    }
                }
                for _ in 0..1 + rng.usize(3) {
                    let blen = match br.fill_buf() {
                        Ok(b) => b.len(),
                        Err(_) => 0,
                    };
                    if blen == 0 {
                        break;
                    }
                    let k = if big_bufreader { rng.usize(blen.min(200) + 1) } else { rng.usize(blen + 1) };
                    br.consume(k);
                    consumed += k;
                    if k < blen {
                        break;
                    }
                }
                if rng.chance(1, 2) {
                    let mut tmp = [0u8; 3];
                    if let Ok(k) = br.read(&mut tmp) {
                        consumed += k;
                    }
                }
                let buffered = br.buffer().to_vec();
                leftover = buffered.len();
                stream = buffered;
                src_off = consumed + leftover;
                debug_assert!(data[consumed..consumed + leftover] == stream[..]);
                r = DeferredReader::from_buf_reader(br);
                vname = "from_buf_reader(partly consumed)";
            }
        }
        // what the BufReader itself did to the source (including seeing its end) is not the
        // DeferredReader's doing: only log entries from here on are attributed to it
        let (log_pos, cae_base) = {
            let st = src.0.borrow();
            (
                st.log.call_log.len(),
                st.log.calls_after_end + (st.log.eof_returned + st.log.err_returned).min(1) * 0,
            )
        };
        Sim {
            r,
            src,
            data,
            stream,
            cursor: 0,
            mark: 0,
            eof_seen: false,
            err_seen: false,
            err_pending: false,
            chunk: 16 << 10,
            log_pos,
            src_off,
            lie_idx: 0,
            leftover,
            log_base_delivered: src_off,
            cae_base,
            exact: leftover == 0,
            variant: vname,
            refills: 0,
            shorts: 0,
            mark_set_at: None,
            refills_since_mark: 0,
            mark_far_checks: 0,
            panics_caught: 0,
            history: vec![],
        }
    }

    /// Pull new source-log entries into the model. Returns per-call results of this op.
    fn sync(&mut self) -> Vec<(usize, i64)> {
        let st = self.src.0.borrow();
        let new: Vec<(usize, i64)> = st.log.call_log[self.log_pos..].to_vec();
        for &(_, res) in &new {
            if res > 0 {
                let n = res as usize;
                self.stream
                    .extend_from_slice(&self.data[self.src_off..self.src_off + n]);
                self.src_off += n;
            } else if res == 0 {
                self.eof_seen = true;
            } else if res == -2 {
                self.err_seen = true;
                self.err_pending = true;
            } else if res == -3 {
                let (_, n) = st.log.lies[self.lie_idx];
                self.lie_idx += 1;
                self.src_off += n;
            }
        }
        self.log_pos = st.log.call_log.len();
        new
    }

    fn ended(&self) -> bool {
        self.eof_seen || self.err_seen
    }

    /// After the source-visible part started, everything pulled is known exactly.
    fn exact_now(&self) -> bool {
        self.exact || self.src_off > self.log_base_delivered || self.ended()
    }

    fn observe(&mut self, p: &mut Vec<String>) {
        let r = &self.r;
        let blen = r.buf_len();
        let avail = self.stream.len() - self.cursor.min(self.stream.len());
        if self.cursor > self.stream.len() {
            p.push(format!(
                "model cursor {} beyond accepted stream {}",
                self.cursor,
                self.stream.len()
            ));
            return;
        }
        if blen > avail {
            p.push(format!(
                "buf_len() = {} but only {} accepted bytes lie in front of the cursor",
                blen, avail
            ));
            return; // do not read a wild slice
        }
        if self.exact_now() && blen != avail {
            p.push(format!(
                "conservation: buf_len() = {} but the source delivered {} bytes in front of the cursor (bytes lost)",
                blen, avail
            ));
        }
        let b = sut(|| r.buf());
        if b.len() != blen {
            p.push(format!("buf().len() {} != buf_len() {}", b.len(), blen));
            return;
        }
        if b.as_ptr() != r.buf_ptr() {
            p.push("buf_ptr() does not point at buf()".into());
        }
        let want = &self.stream[self.cursor..self.cursor + blen];
        let equal = if blen <= 8192 {
            b == want
        } else {
            b[..2048] == want[..2048]
                && b[blen - 2048..] == want[blen - 2048..]
                && (0..blen).step_by(509).all(|i| b[i] == want[i])
        };
        if !equal {
            let i = (0..blen).find(|&i| b[i] != want[i]).unwrap_or(0);
            p.push(format!(
                "window content differs from the source stream at window index {} (stream offset {}): exposed {} expected {}",
                i,
                self.cursor + i,
                excerpt(&b[i..(i + 8).min(blen)], 8),
                excerpt(&want[i..(i + 8).min(blen)], 8)
            ));
        }
        if r.position() != self.cursor {
            p.push(format!(
                "position() = {} but {} bytes were advanced over",
                r.position(),
                self.cursor
            ));
        }
        if r.mark() != self.mark {
            p.push(format!(
                "mark() = {} but it was set to absolute offset {}",
                r.mark(),
                self.mark
            ));
        }
        if let Some(at) = self.mark_set_at {
            if self.cursor.wrapping_sub(at) > 2 * self.chunk && self.refills_since_mark > 0 {
                self.mark_far_checks += 1;
            }
        }
        if r.is_complete() != self.ended() {
            p.push(format!(
                "is_complete() = {} but the source {} returned end/error",
                r.is_complete(),
                if self.ended() { "has" } else { "has not" }
            ));
        }
        if r.is_at_end() != (self.ended() && blen == 0) {
            p.push(format!(
                "is_at_end() = {} (complete={}, buffered={})",
                r.is_at_end(),
                self.ended(),
                blen
            ));
        }
        if r.io_error().is_some() != self.err_pending {
            p.push(format!(
                "io_error().is_some() = {} but an unreported source error is {}",
                r.io_error().is_some(),
                if self.err_pending { "pending" } else { "not pending" }
            ));
        }
    }

    /// Read discipline for an operation that needs `need` buffered bytes (None: must not read).
    fn discipline(&mut self, calls: &[(usize, i64)], need: Option<usize>, before_len: usize, was_ended: bool, single: bool, p: &mut Vec<String>) {
        if calls.is_empty() {
            return;
        }
        if was_ended {
            p.push(format!(
                "[read-discipline] source called {} time(s) after it had reported end of input / an error",
                calls.len()
            ));
            return;
        }
        let Some(need) = need else {
            p.push(format!("[read-discipline] operation made {} read call(s) but must not read", calls.len()));
            return;
        };
        let mut have = before_len;
        let mut ended = false;
        let mut successes = 0;
        for &(offered, res) in calls {
            if offered == 0 {
                p.push("[read-discipline] zero-length buffer offered to the source".into());
            }
            if ended {
                p.push("[read-discipline] source called again after it reported end/error".into());
                break;
            }
            if have >= need && !(single && successes == 0) {
                p.push(format!(
                    "[read-discipline] read call made although {} bytes were buffered and only {} were requested",
                    have, need
                ));
                break;
            }
            if single && successes >= 1 {
                p.push("[read-discipline] request_more performed more than one successful read".into());
                break;
            }
            match res {
                -1 => {}
                0 | -2 => {
                    ended = true;
                    successes += 1;
                }
                -3 => {
                    successes += 1;
                }
                n => {
                    have += n as usize;
                    successes += 1;
                    self.refills += 1;
                    self.refills_since_mark += 1;
                }
            }
        }
    }

    pub fn step(&mut self, op: &Op) -> Vec<String> {
        let before_len = self.r.buf_len();
        let was_ended = self.ended();
        // `leftover` bytes come from the Cursor of a chained BufReader buffer and are invisible in the
        // source log; discipline is judged only once the visible part is reached
        let judge_reads = self.exact_now();
        // while bytes taken over from the BufReader are still to be handed out, a request they satisfy
        // must not touch the source (a blocked terminal would otherwise hold back data that is there)
        let left_in_front = self.leftover.saturating_sub(self.cursor);
        let calls_before = self.log_pos;
        let satisfied_by_leftover = match op {
            Op::Request(n) => *n <= left_in_front,
            Op::RequestByte => 1 <= left_in_front,
            Op::RequestByteAt(k) => k.saturating_add(1) <= left_in_front,
            _ => false,
        };
        let mut p = self.step_inner(op, judge_reads, before_len, was_ended);
        if satisfied_by_leftover && self.log_pos > calls_before {
            p.push(format!(
                "[read-discipline] the source was called {} time(s) by a request that the {} bytes taken over from the BufReader satisfy",
                self.log_pos - calls_before,
                self.leftover
            ));
        }
        p
    }

    fn step_inner(&mut self, op: &Op, judge_reads: bool, before_len: usize, was_ended: bool) -> Vec<String> {
        let mut p = vec![];
        match op {
            Op::Request(n) => {
                let (len, ptr) = sut(|| {
                    let b = self.r.request(*n);
                    (b.len(), b.as_ptr())
                });
                let calls = self.sync();
                if judge_reads {
                    self.discipline(&calls, Some(*n), before_len, was_ended, false, &mut p);
                }
                if len != self.r.buf_len() || ptr != self.r.buf_ptr() {
                    p.push("request() did not return all of the buffered data".into());
                }
                if len < *n {
                    self.shorts += 1;
                    if !self.ended() {
                        p.push(format!(
                            "request({}) fell short ({} bytes) although the source neither ended nor failed",
                            n, len
                        ));
                    }
                }
            }
            Op::RequestByte | Op::RequestByteAt(_) => {
                let k = if let Op::RequestByteAt(k) = op { *k } else { 0 };
                let got = sut(|| {
                    if matches!(op, Op::RequestByte) {
                        self.r.request_byte()
                    } else {
                        self.r.request_byte_at_offset(k)
                    }
                });
                let calls = self.sync();
                if judge_reads {
                    self.discipline(&calls, Some(k.saturating_add(1)), before_len, was_ended, false, &mut p);
                }
                let want = self.cursor.checked_add(k).and_then(|i| self.stream.get(i)).copied();
                match (got, want) {
                    (Some(g), Some(w)) if g == w => {}
                    (None, None) => {
                        self.shorts += 1;
                        if !self.ended() {
                            p.push(format!(
                                "request_byte_at_offset({}) returned None although the source neither ended nor failed",
                                k
                            ));
                        }
                    }
                    (g, w) => p.push(format!(
                        "request_byte_at_offset({}) returned {:?}, stream has {:?}",
                        k, g, w
                    )),
                }
            }
            Op::RequestMore => {
                let got = sut(|| self.r.request_more());
                let calls = self.sync();
                if judge_reads {
                    self.discipline(&calls, Some(usize::MAX), before_len, was_ended, true, &mut p);
                    if !was_ended && calls.iter().filter(|c| c.1 != -1).count() != 1 && self.leftover == 0 {
                        p.push(format!(
                            "[read-discipline] request_more made {} non-interrupted read calls, expected exactly one",
                            calls.iter().filter(|c| c.1 != -1).count()
                        ));
                    }
                }
                if got == was_ended {
                    p.push(format!(
                        "request_more() returned {} with complete={} before the call",
                        got, was_ended
                    ));
                }
            }
            Op::Advance(n) => {
                let n = (*n).min(self.r.buf_len());
                sut(|| self.r.advance(n));
                self.cursor += n;
                let calls = self.sync();
                self.discipline(&calls, None, before_len, was_ended, false, &mut p);
            }
            Op::AdvanceUnchecked(n) => {
                let n = (*n).min(self.r.buf_len());
                // SAFETY: n <= buf_len(), which is the documented contract
                sut(|| unsafe { self.r.advance_unchecked(n) });
                self.cursor += n;
                let calls = self.sync();
                self.discipline(&calls, None, before_len, was_ended, false, &mut p);
            }
            Op::AdvanceWithBuf(n) => {
                let n = (*n).min(self.r.buf_len());
                let got = sut(|| self.r.advance_with_buf(n).to_vec());
                if got.len() != n || got[..] != self.stream[self.cursor..self.cursor + n] {
                    p.push(format!(
                        "advance_with_buf({}) returned {} bytes that differ from stream[{}..{}]",
                        n,
                        got.len(),
                        self.cursor,
                        self.cursor + n
                    ));
                }
                self.cursor += n;
                let calls = self.sync();
                self.discipline(&calls, None, before_len, was_ended, false, &mut p);
            }
            Op::SetMark => {
                sut(|| self.r.set_mark());
                self.mark = self.cursor;
                self.mark_set_at = Some(self.cursor);
                self.refills_since_mark = 0;
            }
            Op::SetMarkTo(pos) => {
                sut(|| self.r.set_mark_to_position(*pos));
                self.mark = *pos;
                self.mark_set_at = None;
            }
            Op::SetChunk(c) => {
                sut(|| self.r.set_chunk_size(*c));
                self.chunk = *c;
            }
            Op::CheckIoError => {
                let got = sut(|| self.r.check_io_error());
                if got.is_err() != self.err_pending {
                    p.push(format!(
                        "check_io_error() returned {} but an unreported source error is {}",
                        if got.is_err() { "Err" } else { "Ok" },
                        if self.err_pending { "pending" } else { "not pending" }
                    ));
                }
                self.err_pending = false;
            }
            Op::Observe => {}
            Op::AdvancePast(extra) | Op::AdvanceWithBufPast(extra) => {
                let n = self.r.buf_len().saturating_add(*extra);
                let r = if matches!(op, Op::AdvancePast(_)) {
                    sut_caught(|| self.r.advance(n))
                } else {
                    sut_caught(|| {
                        let _ = self.r.advance_with_buf(n).len();
                    })
                };
                match r {
                    Err(_) => self.panics_caught += 1,
                    Ok(()) => p.push(format!(
                        "advance({}) beyond the {} buffered bytes did not panic",
                        n, before_len
                    )),
                }
            }
        }
        self.observe(&mut p);
        p
    }

    /// A request that may panic because of a lying / panicking source (hostile mode).
    pub fn step_hostile_request(&mut self, n: usize) -> Vec<String> {
        let mut p = vec![];
        let r = sut_caught(|| {
            let _ = self.r.request(n).len();
        });
        let _ = self.sync();
        if r.is_err() {
            self.panics_caught += 1;
        }
        self.observe(&mut p);
        p
    }
}

pub fn random_policy(rng: &mut Rng, n: usize) -> Policy {
    match rng.below(7) {
        0 => Policy::OneShot,
        1 => Policy::Fixed(1),
        2 => Policy::Fixed(*rng.pick(&[2usize, 3, 5, 7, 8, 9, 13, 16, 64, 4096])),
        3 => Policy::SplitAt(rng.usize(n + 1)),
        4 => Policy::Random {
            mean_x10: *rng.pick(&[15u64, 40, 160, 2000]),
            interrupts: false,
        },
        _ => Policy::Random {
            mean_x10: *rng.pick(&[15u64, 40, 160, 2000]),
            interrupts: true,
        },
    }
}

const HUGE: [usize; 6] = [
    usize::MAX,
    usize::MAX - 1,
    usize::MAX / 2,
    usize::MAX / 2 + 1,
    1 << 62,
    (1 << 32) + 1,
];

pub fn gen_op(rng: &mut Rng, sim: &Sim, hostile: bool) -> Op {
    let chunk = sim.chunk;
    let blen = sim.r.buf_len();
    let w = rng.below(100);
    // an extreme request drains the source: only where that takes a bounded number of refills
    let huge_ok = sim.data.len().saturating_sub(sim.cursor) / chunk.max(1) <= 20_000;
    match w {
        0..=17 => {
            let n = match rng.below(6) {
                0 => rng.usize(4),
                1 => chunk.saturating_mul(1 + rng.usize(6)).min(1 << 21),
                2 => blen + 1 + rng.usize(2 * chunk.min(1 << 16) + 2),
                3 => rng.usize(blen + 2),
                4 => {
                    if rng.chance(1, 20) {
                        // occasionally one huge request, followed by tiny ones (shrink)
                        (sim.data.len() / 2).max(1)
                    } else {
                        1 + rng.usize(64)
                    }
                }
                _ => 1 + rng.usize(300),
            };
            if rng.chance(1, 120) && huge_ok {
                // the extreme amounts: more than any source has; the reader has to drain the source and
                // fall short, without arithmetic going wrong
                return Op::Request(*rng.pick(&HUGE));
            }
            Op::Request(n.min(chunk.saturating_mul(4096).min(1 << 21)))
        }
        18..=24 => Op::RequestByte,
        25..=36 if rng.chance(1, 120) && huge_ok => Op::RequestByteAt(*rng.pick(&HUGE)),
        25..=36 => Op::RequestByteAt(
            match rng.below(4) {
                0 => rng.usize(blen + 2),
                1 => blen + rng.usize(3 * chunk.min(1 << 14) + 1),
                2 => rng.usize(8),
                _ => rng.usize(200),
            }
            .min(chunk.saturating_mul(4096).min(1 << 21)),
        ),
        37..=44 => Op::RequestMore,
        45..=66 => {
            let n = match rng.below(5) {
                0 => blen,
                1 => rng.usize(blen + 1),
                2 => blen.saturating_sub(rng.usize(4)),
                3 => rng.usize(4).min(blen),
                _ => (2 * chunk + 1 + rng.usize(8)).min(blen),
            };
            match rng.below(6) {
                0 | 1 => Op::AdvanceWithBuf(n),
                2 => Op::AdvanceUnchecked(n),
                _ => Op::Advance(n),
            }
        }
        67..=76 => Op::SetMark,
        77..=79 => Op::SetMarkTo(match rng.below(4) {
            0 => usize::MAX - rng.usize(100),
            1 => rng.next() as usize,
            2 => sim.cursor.wrapping_sub(rng.usize(50)),
            _ => sim.cursor.wrapping_add(rng.usize(50)),
        }),
        80..=84 => Op::SetChunk(match rng.below(5) {
            0 => 1,
            1 => *rng.pick(&[2usize, 3, 7, 8, 9, 16, 17, 64]),
            2 => 1 + rng.usize(300),
            3 => *rng.pick(&[1024usize, 4096, 16384, 65536]),
            _ => 1 + rng.usize(20),
        }),
        85..=88 => Op::CheckIoError,
        89..=93 => Op::Observe,
        _ => {
            if hostile {
                let extra = match rng.below(5) {
                    0 => 1,
                    1 => 1 + rng.usize(1000),
                    2 => usize::MAX - rng.usize(3),
                    3 => usize::MAX / 2 + rng.usize(9),
                    _ => (rng.next() as usize) | 1,
                };
                if rng.chance(1, 2) {
                    Op::AdvancePast(extra)
                } else {
                    Op::AdvanceWithBufPast(extra)
                }
            } else {
                Op::Observe
            }
        }
    }
}

pub struct C02 {
    /// report only violations of the read discipline (used by the C09 plan)
    pub only_discipline: bool,
    pub hostile: bool,
    pub max_ops: usize,
    pub max_stream: usize,
}

impl Monitor for C02 {
    fn case(&mut self, _idx: u64, rng: &mut Rng, rep: &mut Report) {
        let n = match rng.below(8) {
            0 => rng.usize(8),
            1..=3 => rng.usize(600),
            4..=5 => rng.usize(20_000),
            6 => rng.usize(self.max_stream.min(200_000) + 1),
            _ => rng.usize(self.max_stream + 1),
        };
        let mut policy = random_policy(rng, n);
        let mut end_fail = if rng.chance(1, 3) {
            Some(rng.usize(n + 1))
        } else {
            None
        };
        // now and then: a BufReader that has buffered more than one default chunk (16384) of a long stream
        let big = self.max_stream >= 100_000 && rng.chance(1, 25);
        let n = if big { 20_000 + rng.usize(80_000) } else { n };
        if big {
            policy = if rng.chance(1, 2) {
                Policy::OneShot
            } else {
                Policy::Random {
                    mean_x10: 400_000,
                    interrupts: rng.chance(1, 2),
                }
            };
            end_fail = if rng.chance(1, 4) { Some(17_000 + rng.usize(n - 16_999)) } else { None };
        }
        let mut sim = Sim::new_with(rng, n, policy.clone(), end_fail, self.hostile, big);
        let mut n_ops = 50 + rng.usize(self.max_ops.saturating_sub(49).max(1));
        // initial chunk: small most of the time so that realign/shrink happen
        let c0 = match rng.below(6) {
            0 => 16384,
            1 => 1,
            2 => 1 + rng.usize(8),
            3 => 1 + rng.usize(64),
            4 => 1 + rng.usize(1024),
            _ => *rng.pick(&[2usize, 3, 7, 8, 9, 16, 17, 64, 1024]),
        };
        let mut problems = vec![];
        let mut ops_done = 0u64;
        // now and then: a look-ahead of more than 1 MiB on a multi-MiB stream, a mark, then nearly all of it
        // consumed and a refill (buffers in the MiB range take their own paths when they are given back)
        let huge_lookahead = self.max_stream >= (1 << 20) && !self.hostile && !big && rng.chance(1, 120);
        if huge_lookahead {
            let n2 = (3 << 20) + rng.usize(1 << 20);
            policy = if rng.chance(1, 2) {
                Policy::OneShot
            } else {
                Policy::Random {
                    mean_x10: 3_000_000,
                    interrupts: false,
                }
            };
            sim = Sim::new_with(rng, n2, policy.clone(), None, false, false);
            rep.inc("histories_with_a_look_ahead_above_1_mib");
            let la = (1 << 20) + rng.usize(1 << 20);
            let small = rng.usize(300);
            let keep = 1 + rng.usize(2000);
            let script = vec![
                Op::Request(la),
                Op::Advance(small),
                Op::SetMark,
                Op::Observe,
                Op::Advance(la.saturating_sub(small + keep).min(sim.r.buf_len())),
                Op::Request(keep + 1 + rng.usize(40_000)),
                Op::Observe,
                Op::RequestMore,
                Op::Observe,
            ];
            for op in script {
                // amounts are clamped to what is buffered at that moment
                let op = match op {
                    Op::Advance(k) => Op::Advance(k.min(sim.r.buf_len())),
                    o => o,
                };
                sim.history.push(op.clone());
                let mut pr = sim.step(&op);
                if self.only_discipline {
                    pr.retain(|p| p.starts_with("[read-discipline]"));
                }
                problems.extend(pr);
                ops_done += 1;
            }
            // a short random tail only (MiBs of stream under tiny chunks would cost minutes)
            n_ops = ops_done as usize + 25;
        }
        // (one history in four keeps the chunk size the constructor chose)
        if !huge_lookahead && !rng.chance(1, 4) {
            let first = Op::SetChunk(c0);
            sim.history.push(first.clone());
            problems.extend(sim.step(&first));
            ops_done = 1;
        } else {
            rep.inc("histories_with_the_constructors_chunk_size");
        }
        while problems.is_empty() && (ops_done as usize) < n_ops {
            let op = gen_op(rng, &sim, self.hostile);
            sim.history.push(op.clone());
            if sim.history.len() > 400 {
                sim.history.remove(0);
            }
            let pr = if self.hostile
                && (sim.src.0.borrow().lie_at_call.is_some() || sim.src.0.borrow().panic_at_call.is_some())
            {
                // any reading op may panic through the source: run those under catch_unwind
                match &op {
                    Op::Request(k) => sim.step_hostile_request(*k),
                    Op::RequestByte | Op::RequestByteAt(_) | Op::RequestMore => {
                        sim.step_hostile_request(sim.r.buf_len() + 1)
                    }
                    other => sim.step(other),
                }
            } else {
                sim.step(&op)
            };
            let mut pr = pr;
            if self.only_discipline {
                // the read discipline is judged from the source's own log; a history goes on after
                // problems that belong to another property
                pr.retain(|p| p.starts_with("[read-discipline]"));
            }
            problems.extend(pr);
            ops_done += 1;
        }
        rep.count("ops", ops_done);
        let log = sim.src.log();
        rep.count("read_calls", log.calls);
        rep.count("interrupted_retries", log.interrupts);
        rep.count("refills", sim.refills);
        rep.count("short_requests", sim.shorts);
        rep.count("mark_checks_far_after_refill", sim.mark_far_checks);
        rep.count("panics_caught", sim.panics_caught);
        rep.count("ended_eof", log.eof_returned.min(1));
        rep.count("ended_err", log.err_returned.min(1));
        rep.count("lying_reads", log.lies.len() as u64);
        rep.inc(&format!("variant:{}", sim.variant));
        if sim.leftover > 16384 {
            rep.inc("bufreader_held_more_than_one_chunk");
        }
        // (only calls after the DeferredReader itself saw the end count; a BufReader may have seen it before)
        let _ = sim.cae_base;
        let nontrivial = sim.refills >= 3 && sim.mark_far_checks >= 1 && sim.shorts >= 1;
        if nontrivial || (self.hostile && sim.panics_caught > 0 && sim.refills >= 2) {
            rep.nontrivial(
                H::new()
                    .u(n as u64)
                    .u(ops_done)
                    .u(log.calls)
                    .u(sim.cursor as u64)
                    .u(rep.cur)
                    .get(),
            );
            rep.sample(|| {
                J::obj()
                    .set("stream_len", J::u(n))
                    .set("construction", J::s(sim.variant))
                    .set("schedule", J::s(policy.describe()))
                    .set("ops", J::U(ops_done))
                    .set("read_calls", J::U(log.calls))
                    .set("refills", J::U(sim.refills))
                    .set("mark_checks_far_after_refill", J::U(sim.mark_far_checks))
                    .set("panics_caught", J::U(sim.panics_caught))
                    .set(
                        "last_ops",
                        J::A(sim
                            .history
                            .iter()
                            .rev()
                            .take(12)
                            .rev()
                            .map(|o| J::s(format!("{:?}", o)))
                            .collect()),
                    )
            });
        }
        if self.only_discipline {
            problems.retain(|p| p.starts_with("[read-discipline]"));
        }
        if !problems.is_empty() {
            let kind = problems[0]
                .split(|c: char| c.is_ascii_digit())
                .next()
                .unwrap_or("")
                .trim()
                .chars()
                .take(40)
                .collect::<String>();
            rep.violation(
                &kind,
                J::obj()
                    .set("stream_len", J::u(n))
                    .set("construction", J::s(sim.variant))
                    .set("schedule", J::s(policy.describe()))
                    .set("source_fails_at", match end_fail {
                        Some(k) => J::u(k),
                        None => J::Null,
                    })
                    .set("problems", J::A(problems.into_iter().map(J::s).collect()))
                    .set(
                        "history_tail",
                        J::A(sim.history.iter().map(|o| J::s(format!("{:?}", o))).collect()),
                    )
                    .set("ops_done", J::U(ops_done)),
            );
        }
    }
    fn panic_is_violation(&self) -> bool {
        true
    }
}
