//! C03 - writing a value and parsing it back is the identity, for every format; and for every
//! accepted text parse(write(parse(t))) == parse(t).
//!
//! Direction 1: typed values are built directly (never by parsing) from abstract documents, written
//! by the real writers through a real DeferredWriter, parsed by the real parsers and compared (via
//! the canonical rendering of every field) with the abstract document.
//! Direction 2: every text of the shared corpus that a parser accepts is parsed to typed values,
//! written back and parsed again.

use crate::corpus;
use crate::drive::{self, Ctor, Outcome, PCfg, PK};
use crate::gen::{self, AigerDoc, BKind, BLine, BtorDoc, DimacsDoc, Init};
use crate::json::J;
use crate::prng::{Rng, H};
use crate::src::{Policy, Src};
use crate::work::{sut, Monitor, Report};
use flussab::DeferredWriter;
use flussab_aiger::aig::{Aig, AndGate, Latch, OrderedAig, OrderedAndGate, OrderedLatch, Symbol, SymbolTarget};
use flussab_btor2::btor2 as b2;
use std::borrow::Cow;
use std::io::Write;

pub struct C03 {}

// ------------------------------------------------------------------------------ typed writers

fn write_dimacs_t<L: flussab_cnf::Dimacs>(doc: &DimacsDoc, w: &mut DeferredWriter) {
    use flussab_cnf::{cnf, gcnf, wcnf};
    if let Some(h) = doc.header {
        match doc.kind {
            PK::Cnf => cnf::write_header(
                w,
                cnf::Header {
                    var_count: h[0] as usize,
                    clause_count: h[1] as usize,
                },
            ),
            PK::Wcnf => wcnf::write_header(
                w,
                wcnf::Header {
                    var_count: h[0] as usize,
                    clause_count: h[1] as usize,
                    top_weight: h[2],
                },
            ),
            _ => gcnf::write_header(
                w,
                gcnf::Header {
                    var_count: h[0] as usize,
                    clause_count: h[1] as usize,
                    group_count: h[2] as usize,
                },
            ),
        }
    }
    for (extra, lits) in &doc.clauses {
        let typed: Vec<L> = lits.iter().map(|&l| L::from_dimacs(l as isize)).collect();
        match doc.kind {
            PK::Cnf => cnf::write_clause(w, &typed),
            PK::Wcnf => wcnf::write_clause(w, *extra, &typed),
            _ => gcnf::write_clause(w, *extra as usize, &typed),
        }
    }
}

thread_local! {
    /// bytes already sitting in the writer's buffer when a document is written (so that the buffer
    /// boundary falls at every position of a document, not only 16384 bytes into it)
    static PREFILL: std::cell::Cell<usize> = const { std::cell::Cell::new(0) };
}

fn prefill(w: &mut DeferredWriter) {
    let n = PREFILL.with(|p| p.get());
    if n > 0 {
        w.write_all_defer_err(&vec![b'#'; n]);
    }
}

fn strip_prefill(mut out: Vec<u8>) -> Vec<u8> {
    let n = PREFILL.with(|p| p.get());
    assert!(out.len() >= n && out[..n].iter().all(|&c| c == b'#'), "harness: prefill not found in front of the written document");
    out.drain(..n);
    out
}

fn write_dimacs(doc: &DimacsDoc, lt: u8) -> Vec<u8> {
    let mut out = vec![];
    {
        let mut w = DeferredWriter::from_write(&mut out);
        prefill(&mut w);
        match lt {
            0 => write_dimacs_t::<i8>(doc, &mut w),
            1 => write_dimacs_t::<i16>(doc, &mut w),
            2 => write_dimacs_t::<i32>(doc, &mut w),
            3 => write_dimacs_t::<i64>(doc, &mut w),
            _ => write_dimacs_t::<isize>(doc, &mut w),
        }
        let _ = w.flush();
    }
    strip_prefill(out)
}

fn sym_target(k: u8, i: u64) -> SymbolTarget {
    let i = i as usize;
    match k {
        b'i' => SymbolTarget::Input(i),
        b'l' => SymbolTarget::Latch(i),
        b'o' => SymbolTarget::Output(i),
        b'b' => SymbolTarget::BadStateProperty(i),
        b'c' => SymbolTarget::InvariantConstraint(i),
        b'j' => SymbolTarget::JusticeProperty(i),
        _ => SymbolTarget::FairnessConstraint(i),
    }
}

fn init_val(i: Init) -> Option<bool> {
    match i {
        Init::ZeroOmitted | Init::ZeroExplicit => Some(false),
        Init::One => Some(true),
        Init::Own => None,
    }
}

fn symbols_of(doc: &AigerDoc) -> Vec<Symbol<'static>> {
    doc.symbols
        .iter()
        .map(|(k, i, name)| Symbol {
            target: sym_target(*k, *i),
            name: Cow::Owned(String::from_utf8(name.clone()).expect("generator makes UTF-8 names")),
        })
        .collect()
}

fn build_aig<L: flussab_aiger::Lit>(doc: &AigerDoc) -> Aig<L> {
    let l = |c: u64| L::from_code(c as usize);
    Aig {
        max_var_index: doc.m as usize,
        inputs: doc.inputs.iter().map(|&c| l(c)).collect(),
        latches: doc
            .latches
            .iter()
            .map(|&(s, n, i)| Latch {
                state: l(s),
                next_state: l(n),
                initialization: init_val(i),
            })
            .collect(),
        outputs: doc.outputs.iter().map(|&c| l(c)).collect(),
        bad_state_properties: doc.bad.iter().map(|&c| l(c)).collect(),
        invariant_constraints: doc.constr.iter().map(|&c| l(c)).collect(),
        justice_properties: doc.justice.iter().map(|j| j.iter().map(|&c| l(c)).collect()).collect(),
        fairness_constraints: doc.fair.iter().map(|&c| l(c)).collect(),
        and_gates: doc
            .ands
            .iter()
            .map(|&(o, a, b)| AndGate {
                inputs: [l(a), l(b)],
                output: l(o),
            })
            .collect(),
        symbols: symbols_of(doc),
        comment: doc.comment.as_ref().map(|c| String::from_utf8(c.clone()).expect("utf8")),
    }
}

fn build_ordered<L: flussab_aiger::Lit>(doc: &AigerDoc, swap: bool) -> OrderedAig<L> {
    let l = |c: u64| L::from_code(c as usize);
    OrderedAig {
        max_var_index: doc.m as usize,
        input_count: doc.n_inputs as usize,
        latches: doc
            .latches
            .iter()
            .map(|&(_, n, i)| OrderedLatch {
                next_state: l(n),
                initialization: init_val(i),
            })
            .collect(),
        outputs: doc.outputs.iter().map(|&c| l(c)).collect(),
        bad_state_properties: doc.bad.iter().map(|&c| l(c)).collect(),
        invariant_constraints: doc.constr.iter().map(|&c| l(c)).collect(),
        justice_properties: doc.justice.iter().map(|j| j.iter().map(|&c| l(c)).collect()).collect(),
        fairness_constraints: doc.fair.iter().map(|&c| l(c)).collect(),
        and_gates: doc
            .ands
            .iter()
            .map(|&(_, a, b)| OrderedAndGate {
                inputs: if swap { [l(b), l(a)] } else { [l(a), l(b)] },
            })
            .collect(),
        symbols: symbols_of(doc),
        comment: doc.comment.as_ref().map(|c| String::from_utf8(c.clone()).expect("utf8")),
    }
}

thread_local! {
    /// write another circuit with the SAME format writer first (a writer object used for several documents)
    static WARMUP: std::cell::Cell<bool> = const { std::cell::Cell::new(false) };
}

#[derive(Clone)]
struct SharedSink(std::rc::Rc<std::cell::RefCell<Vec<u8>>>);
impl std::io::Write for SharedSink {
    fn write(&mut self, b: &[u8]) -> std::io::Result<usize> {
        self.0.borrow_mut().extend_from_slice(b);
        Ok(b.len())
    }
    fn flush(&mut self) -> std::io::Result<()> {
        Ok(())
    }
}

fn warm_ordered<L: flussab_aiger::Lit>() -> OrderedAig<L> {
    let l = |c: usize| L::from_code(c);
    OrderedAig {
        max_var_index: 4,
        input_count: 2,
        latches: vec![OrderedLatch {
            next_state: l(2),
            initialization: None,
        }],
        outputs: vec![l(8)],
        and_gates: vec![OrderedAndGate { inputs: [l(6), l(3)] }],
        ..OrderedAig::default()
    }
}

/// which: 0 = ascii write_aig(Aig), 1 = ascii write_ordered_aig(OrderedAig), 2 = binary write_ordered_aig,
/// 3 = ascii write_aig(Aig::from(OrderedAig))
fn write_aiger_t<L: flussab_aiger::Lit>(doc: &AigerDoc, which: u8, swap: bool) -> Vec<u8> {
    let warm = WARMUP.with(|c| c.get());
    let shared = SharedSink(Default::default());
    let mut mark = 0usize;
    {
        let mut dw = DeferredWriter::from_write(shared.clone());
        prefill(&mut dw);
        match which {
            0 | 3 => {
                let aig: Aig<L> = if which == 0 { build_aig::<L>(doc) } else { build_ordered::<L>(doc, swap).into() };
                let mut w = flussab_aiger::ascii::Writer::<L>::new(&mut dw);
                if warm {
                    let first: Aig<L> = warm_ordered::<L>().into();
                    w.write_aig(&first);
                    let _ = w.flush();
                    mark = shared.0.borrow().len();
                }
                w.write_aig(&aig);
                let _ = w.flush();
            }
            1 => {
                let aig = build_ordered::<L>(doc, swap);
                let mut w = flussab_aiger::ascii::Writer::<L>::new(&mut dw);
                if warm {
                    w.write_ordered_aig(&warm_ordered::<L>());
                    let _ = w.flush();
                    mark = shared.0.borrow().len();
                }
                w.write_ordered_aig(&aig);
                let _ = w.flush();
            }
            _ => {
                let aig = build_ordered::<L>(doc, swap);
                let mut w = flussab_aiger::binary::Writer::<L>::new(dw);
                if warm {
                    w.write_ordered_aig(&warm_ordered::<L>());
                    let _ = w.writer.flush();
                    mark = shared.0.borrow().len();
                }
                w.write_ordered_aig(&aig);
                let _ = w.writer.flush();
            }
        }
    }
    let out = shared.0.borrow().clone();
    if warm {
        out[mark..].to_vec()
    } else {
        strip_prefill(out)
    }
}

fn write_aiger(doc: &AigerDoc, lt: u8, which: u8, swap: bool) -> Vec<u8> {
    match lt {
        0 => write_aiger_t::<u8>(doc, which, swap),
        1 => write_aiger_t::<u16>(doc, which, swap),
        2 => write_aiger_t::<u32>(doc, which, swap),
        3 => write_aiger_t::<u64>(doc, which, swap),
        _ => write_aiger_t::<usize>(doc, which, swap),
    }
}

/// the ASCII document equivalent to an ordered (binary-shaped) one
fn ascii_equivalent(doc: &AigerDoc, swap: bool) -> AigerDoc {
    let mut d = doc.clone();
    d.binary = false;
    d.inputs = (1..=doc.n_inputs).map(|i| 2 * i).collect();
    if swap {
        for g in d.ands.iter_mut() {
            std::mem::swap(&mut g.1, &mut g.2);
        }
    }
    d
}

fn unary_op(k: &str) -> b2::UnaryOp {
    match k {
        "not" => b2::UnaryOp::Not,
        "inc" => b2::UnaryOp::Inc,
        "dec" => b2::UnaryOp::Dec,
        "neg" => b2::UnaryOp::Neg,
        "redand" => b2::UnaryOp::Redand,
        "redor" => b2::UnaryOp::Redor,
        _ => b2::UnaryOp::Redxor,
    }
}

fn binary_op(k: &str) -> b2::BinaryOp {
    use b2::BinaryOp::*;
    match k {
        "iff" => Iff,
        "implies" => Implies,
        "eq" => Eq,
        "neq" => Neq,
        "ugt" => Ugt,
        "sgt" => Sgt,
        "ugte" => Ugte,
        "sgte" => Sgte,
        "ult" => Ult,
        "slt" => Slt,
        "ulte" => Ulte,
        "slte" => Slte,
        "and" => And,
        "nand" => Nand,
        "nor" => Nor,
        "or" => Or,
        "xnor" => Xnor,
        "xor" => Xor,
        "rol" => Rol,
        "ror" => Ror,
        "sll" => Sll,
        "sra" => Sra,
        "srl" => Srl,
        "add" => Add,
        "mul" => Mul,
        "udiv" => Udiv,
        "sdiv" => Sdiv,
        "smod" => Smod,
        "urem" => Urem,
        "srem" => Srem,
        "sub" => Sub,
        "uaddo" => Uaddo,
        "saddo" => Saddo,
        "sdivo" => Sdivo,
        "umulo" => Umulo,
        "smulo" => Smulo,
        "usubo" => Usubo,
        "ssubo" => Ssubo,
        "concat" => Concat,
        _ => Read,
    }
}

/// Writes the BTOR2 document through flussab's Line::write_into. Constants go through the validating
/// TryFrom constructors; a line whose constant is refused is skipped (returns the kept lines).
fn write_btor(doc: &BtorDoc, rep: &mut Report) -> (Vec<u8>, Vec<String>, Vec<u8>) {
    let mut out = vec![];
    let mut expected = vec![];
    // the same lines through `impl Display for Line` (the other public way to turn a line into text)
    let mut shown: Vec<u8> = vec![];
    {
        let mut w = DeferredWriter::from_write(&mut out);
        prefill(&mut w);
        for line in &doc.lines {
            match line {
                BLine::Comment(c) => {
                    let l = b2::Line::Comment(c.as_slice().into());
                    l.write_into(&mut w);
                    shown.extend_from_slice(l.to_string().as_bytes());
                    shown.push(b'\n');
                    expected.push(gen::btor_item(line));
                }
                BLine::Node {
                    id,
                    kind,
                    symbol,
                    comment,
                } => {
                    let nid = |v: u64| b2::NodeId::new(v);
                    let nodes: Vec<b2::NodeId>;
                    fn val<'x>(sort: u64, variant: b2::ValueVariant<'x>) -> b2::NodeVariant<'x> {
                        b2::NodeVariant::Value(b2::Value {
                            sort: b2::NodeId::new(sort),
                            variant,
                        })
                    }
                    let variant: b2::NodeVariant = match kind {
                        BKind::SortBitvec(wd) => b2::NodeVariant::Sort(b2::Sort::bit_vec(*wd)),
                        BKind::SortArray(d, c) => b2::NodeVariant::Sort(b2::Sort::Array(b2::Array(nid(*d), nid(*c)))),
                        BKind::Const(k, sort, digits) => {
                            let c = match *k {
                                "const" => b2::BinaryConst::try_from(digits.as_str()).map(b2::Const::Binary),
                                "constd" => b2::DecimalConst::try_from(digits.as_str()).map(b2::Const::Decimal),
                                _ => b2::HexConst::try_from(digits.as_str()).map(b2::Const::Hex),
                            };
                            match c {
                                Ok(c) => {
                                    rep.inc("btor_const_ctor_accepted");
                                    val(*sort, b2::ValueVariant::Const(c))
                                }
                                Err(_) => {
                                    rep.inc("btor_const_ctor_refused");
                                    continue;
                                }
                            }
                        }
                        BKind::Nullary(k, sort) => val(
                            *sort,
                            match *k {
                                "one" => b2::ValueVariant::Const(b2::Const::One),
                                "ones" => b2::ValueVariant::Const(b2::Const::Ones),
                                "zero" => b2::ValueVariant::Const(b2::Const::Zero),
                                "input" => b2::ValueVariant::Input,
                                _ => b2::ValueVariant::State,
                            },
                        ),
                        BKind::Ext(k, sort, a, wd) => val(
                            *sort,
                            b2::ValueVariant::Op(b2::Op::Unary(
                                if *k == "uext" {
                                    b2::UnaryOp::Uext(*wd)
                                } else {
                                    b2::UnaryOp::Sext(*wd)
                                },
                                nid(*a),
                            )),
                        ),
                        BKind::Slice(sort, a, u, l) => val(
                            *sort,
                            b2::ValueVariant::Op(b2::Op::Unary(b2::UnaryOp::Slice(*u, *l), nid(*a))),
                        ),
                        BKind::Unary(k, sort, a) => {
                            val(*sort, b2::ValueVariant::Op(b2::Op::Unary(unary_op(k), nid(*a))))
                        }
                        BKind::Binary(k, sort, a, b) => val(
                            *sort,
                            b2::ValueVariant::Op(b2::Op::Binary(binary_op(k), [nid(*a), nid(*b)])),
                        ),
                        BKind::Ternary(k, sort, a, b, c) => val(
                            *sort,
                            b2::ValueVariant::Op(b2::Op::Ternary(
                                if *k == "ite" {
                                    b2::TernaryOp::Ite
                                } else {
                                    b2::TernaryOp::Write
                                },
                                [nid(*a), nid(*b), nid(*c)],
                            )),
                        ),
                        BKind::Assign(k, sort, st, v) => b2::NodeVariant::Assignment(b2::Assignment {
                            state: nid(*st),
                            sort: nid(*sort),
                            kind: if *k == "init" {
                                b2::AssignmentKind::Init
                            } else {
                                b2::AssignmentKind::Next
                            },
                            value: nid(*v),
                        }),
                        BKind::Out(k, v) => b2::NodeVariant::Output(b2::Output::SingleValue(b2::SingleValueOutput {
                            kind: match *k {
                                "bad" => b2::SingleValueOutputKind::Bad,
                                "constraint" => b2::SingleValueOutputKind::Constraint,
                                "fair" => b2::SingleValueOutputKind::Fair,
                                _ => b2::SingleValueOutputKind::Output,
                            },
                            value: nid(*v),
                        })),
                        BKind::Justice(ns) => {
                            nodes = ns.iter().map(|&n| nid(n)).collect();
                            b2::NodeVariant::Output(b2::Output::Justice(&nodes))
                        }
                    };
                    let node = b2::Line::Node(b2::Node {
                        id: nid(*id),
                        variant,
                        symbol: symbol.as_ref().map(|s| s.as_slice().into()),
                        comment: comment.as_ref().map(|s| s.as_slice().into()),
                    });
                    node.write_into(&mut w);
                    shown.extend_from_slice(node.to_string().as_bytes());
                    shown.push(b'\n');
                    // the value's own canonical rendering (from the typed value, not from the abstract one)
                    let mut s = String::new();
                    drive::btor_line_str(&mut s, &node);
                    let abstract_item = gen::btor_item(line);
                    if s != abstract_item {
                        rep.inc("harness_btor_rendering_mismatch");
                    }
                    expected.push(s);
                }
            }
        }
        let _ = w.flush();
    }
    (strip_prefill(out), expected, shown)
}

// ------------------------------------------------------------------------------ direction 2: re-writing parsed values

macro_rules! rewrite_dimacs {
    ($fname:ident, $module:ident, $write:expr) => {
        fn $fname<L: flussab_cnf::Dimacs>(flag: bool, bytes: &[u8]) -> Option<Vec<u8>> {
            use flussab_cnf::$module::{write_header, Config, Parser};
            let mut p = Parser::<L>::from_read(bytes, Config::default().ignore_header(flag)).ok()?;
            let mut out = vec![];
            {
                let mut w = DeferredWriter::from_write(&mut out);
                if let Some(h) = p.header() {
                    write_header(&mut w, h);
                }
                loop {
                    match p.next_clause() {
                        Ok(Some(c)) => {
                            #[allow(clippy::redundant_closure_call)]
                            ($write)(&mut w, c)
                        }
                        Ok(None) => break,
                        Err(_) => return None,
                    }
                }
                w.flush().ok()?;
            }
            Some(out)
        }
    };
}
rewrite_dimacs!(rewrite_cnf, cnf, |w: &mut DeferredWriter, c: &[L]| flussab_cnf::cnf::write_clause(w, c));
rewrite_dimacs!(rewrite_wcnf, wcnf, |w: &mut DeferredWriter, c: (u64, &[L])| flussab_cnf::wcnf::write_clause(
    w, c.0, c.1
));
rewrite_dimacs!(rewrite_gcnf, gcnf, |w: &mut DeferredWriter, c: (usize, &[L])| flussab_cnf::gcnf::write_clause(
    w, c.0, c.1
));

fn rewrite_aag<L: flussab_aiger::Lit>(bytes: &[u8]) -> Option<Vec<u8>> {
    use flussab_aiger::ascii::{Config, Parser, Writer};
    let aig = Parser::<L>::from_read(bytes, Config::default()).ok()?.parse().ok()?;
    let mut out = vec![];
    {
        let mut dw = DeferredWriter::from_write(&mut out);
        Writer::<L>::new(&mut dw).write_aig(&aig);
        dw.flush().ok()?;
    }
    Some(out)
}

fn rewrite_aig<L: flussab_aiger::Lit>(bytes: &[u8]) -> Option<Vec<u8>> {
    use flussab_aiger::binary::{Config, Parser, Writer};
    let aig = Parser::<L>::from_read(bytes, Config::default()).ok()?.parse().ok()?;
    let mut out = vec![];
    {
        let dw = DeferredWriter::from_write(&mut out);
        let mut w = Writer::<L>::new(dw);
        w.write_ordered_aig(&aig);
        w.writer.flush().ok()?;
    }
    Some(out)
}

fn rewrite_btor(bytes: &[u8]) -> Option<Vec<u8>> {
    use flussab_btor2::{Config, Parser};
    let mut p = Parser::from_read(bytes, Config::default()).ok()?;
    let mut out = vec![];
    {
        let mut w = DeferredWriter::from_write(&mut out);
        loop {
            match p.next_line() {
                Ok(Some(line)) => line.write_into(&mut w),
                Ok(None) => break,
                Err(_) => return None,
            }
        }
        w.flush().ok()?;
    }
    Some(out)
}

pub fn rewrite(cfg: PCfg, bytes: &[u8]) -> Option<Vec<u8>> {
    macro_rules! d {
        ($f:ident) => {
            match cfg.lt {
                0 => $f::<i8>(cfg.flag, bytes),
                1 => $f::<i16>(cfg.flag, bytes),
                2 => $f::<i32>(cfg.flag, bytes),
                3 => $f::<i64>(cfg.flag, bytes),
                _ => $f::<isize>(cfg.flag, bytes),
            }
        };
    }
    macro_rules! a {
        ($f:ident) => {
            match cfg.lt {
                0 => $f::<u8>(bytes),
                1 => $f::<u16>(bytes),
                2 => $f::<u32>(bytes),
                3 => $f::<u64>(bytes),
                _ => $f::<usize>(bytes),
            }
        };
    }
    match cfg.pk {
        PK::Cnf => d!(rewrite_cnf),
        PK::Wcnf => d!(rewrite_wcnf),
        PK::Gcnf => d!(rewrite_gcnf),
        PK::Aag => a!(rewrite_aag),
        PK::Aig => a!(rewrite_aig),
        PK::Btor2 => rewrite_btor(bytes),
        PK::Log => None,
    }
}

const FORMATS: [PK; 6] = [PK::Cnf, PK::Wcnf, PK::Gcnf, PK::Aag, PK::Aig, PK::Btor2];

fn varint_len(v: u64) -> usize {
    gen::varint(v).len()
}

impl C03 {
    fn judge(
        &self,
        rep: &mut Report,
        cfg: PCfg,
        written: &[u8],
        expected: &[String],
        what: &str,
        nontrivial: bool,
    ) -> bool {
        let tr = sut(|| {
            drive::run_collect(
                cfg,
                Ctor::Chunk(16384),
                Src::from_bytes(written, Policy::OneShot, 0),
            )
        });
        rep.inc("roundtrips");
        let mut ok = tr.outcome == Outcome::End && tr.items == expected;
        let mut tr = tr;
        let mut how = "one read, Parser::new, default chunk".to_string();
        // a quarter of the documents is parsed back a second time through another constructor / schedule
        let h = H::new().b(written).u(cfg.code()).get();
        if ok && h % 4 == 0 {
            let mut r2 = Rng::new(h);
            let ctor = drive::random_ctor(&mut r2);
            let policy = crate::c01::random_policy(&mut r2, written.len());
            let tr2 = sut(|| drive::run_collect(cfg, ctor, Src::from_bytes(written, policy.clone(), h)));
            rep.inc("roundtrips_through_another_constructor_or_schedule");
            if !(tr2.outcome == Outcome::End && tr2.items == expected) {
                ok = false;
                tr = tr2;
                how = format!("{}, {}", policy.describe(), ctor.describe());
            }
        }
        if ok {
            if nontrivial {
                rep.nontrivial(H::new().b(written).u(cfg.code()).get());
                if rep.want_sample() && written.len() > 40 {
                    rep.sample(|| {
                        J::obj()
                            .set("direction", J::s(what))
                            .set("parser", J::s(cfg.describe()))
                            .set("written", J::bytes(&written[..written.len().min(240)]))
                            .set("items", J::u(expected.len()))
                    });
                }
            }
            return true;
        }
        let first = (0..tr.items.len().max(expected.len())).find(|&i| tr.items.get(i) != expected.get(i));
        rep.violation(
            &format!(
                "{}:{}",
                cfg.pk.name(),
                if tr.outcome == Outcome::End { "value" } else { "rejected" }
            ),
            J::obj()
                .set("direction", J::s(what))
                .set("parser", J::s(cfg.describe()))
                .set("parsed_back_with", J::s(how))
                .set("written", J::bytes(written))
                .set("outcome", J::s(tr.outcome.describe()))
                .set("items_written", J::u(expected.len()))
                .set("items_parsed", J::u(tr.items.len()))
                .set(
                    "first_difference",
                    match first {
                        Some(i) => J::obj()
                            .set("index", J::u(i))
                            .set("value_written", J::s(expected.get(i).cloned().unwrap_or_else(|| "<none>".into())))
                            .set("value_parsed", J::s(tr.items.get(i).cloned().unwrap_or_else(|| "<none>".into()))),
                        None => J::Null,
                    },
                ),
        );
        false
    }
}

impl Monitor for C03 {
    fn case(&mut self, idx: u64, rng: &mut Rng, rep: &mut Report) {
        let pk = FORMATS[(idx % 6) as usize];
        let mut cfg = drive::random_cfg(rng, pk);
        cfg.lt = ((idx / 6) % pk.n_lit_types() as u64) as u8;
        cfg.flag = false;
        rep.inc(&format!("parser:{}", pk.name()));
        rep.inc(&format!("lit:{}", pk.lit_name(cfg.lt)));
        // large documents (> 16 KiB: the writer's cold path is on the round-trip path) now and then
        let size = match rng.below(40) {
            0 => 2500,
            1..=4 => 200,
            _ => 12,
        };
        // direction 1: how full the writer's buffer already is when the document is written
        let cap = 16384usize;
        let pre = match rng.below(6) {
            0 | 1 | 2 => 0,
            3 => cap - 1 - rng.usize(60),
            4 => cap - rng.usize(cap.min(400)),
            _ => rng.usize(cap + 200),
        };
        PREFILL.with(|p| p.set(if (idx / 6) % 3 != 2 { pre } else { 0 }));
        if pre > 0 && (idx / 6) % 3 != 2 {
            rep.inc("choice:writer_buffer_partly_full_before_the_document");
        }
        if (idx / 6) % 3 != 2 {
            // ---------------- direction 1
            match pk {
                PK::Cnf | PK::Wcnf | PK::Gcnf => {
                    // a third of the documents: any header at all (counts that do not fit the clauses),
                    // written and then parsed with ignore_header(true), which promises not to enforce it
                    let any_header = rng.chance(1, 3);
                    if any_header {
                        cfg.flag = true;
                        rep.inc("choice:arbitrary_header_parsed_with_ignore_header");
                    }
                    let doc = gen::gen_dimacs(rng, pk, cfg.lt, !any_header, size);
                    let written = sut(|| write_dimacs(&doc, cfg.lt));
                    let max = gen::max_dimacs(cfg.lt);
                    if doc.clauses.iter().any(|c| c.1.iter().any(|&l| l == max || l == -max)) {
                        rep.inc(&format!("choice:extreme_literal:{}", pk.lit_name(cfg.lt)));
                    }
                    if doc.clauses.iter().any(|c| c.1.is_empty()) {
                        rep.inc("choice:empty_clause");
                    }
                    if doc.header.is_none() {
                        rep.inc("choice:no_header");
                    }
                    if written.len() > 16384 {
                        rep.inc("choice:document_larger_than_writer_buffer");
                    }
                    if doc.clauses.iter().any(|c| c.1.len() > 4096) {
                        rep.inc("choice:clause_with_more_than_4096_literals");
                    }
                    let items = doc.items();
                    self.judge(rep, cfg, &written, &items, "write(value)->parse", items.len() >= 2);
                }
                PK::Aag | PK::Aig => {
                    // one document in four is the SECOND one written with its writer object
                    let warm = rng.chance(1, 4);
                    WARMUP.with(|c| c.set(warm));
                    if warm {
                        rep.inc("choice:aiger_writer_object_reused_for_a_second_document");
                    }
                    let binary_shape = pk == PK::Aig || rng.chance(1, 3);
                    // large documents: one section with more entries than any reservation cap (4096)
                    let long = if size >= 2000 && rng.chance(2, 3) {
                        let sec = if cfg.lt == 0 { 3 + rng.usize(7) } else { rng.usize(10) };
                        rep.inc(&format!("choice:aiger_long_section:{}", gen::AIGER_LONG_SECTIONS[sec]));
                        Some((sec, gen::long_count(rng)))
                    } else {
                        None
                    };
                    let doc = gen::gen_aiger_ext(rng, binary_shape, cfg.lt, size.min(300), long);
                    let h = doc.header_numbers();
                    let needed = 9 - h.iter().rev().take_while(|&&x| x == 0).count().min(4);
                    rep.inc(&format!("choice:header_fields_written:{}", needed.max(5)));
                    for l in &doc.latches {
                        rep.inc(match l.2 {
                            Init::ZeroOmitted | Init::ZeroExplicit => "choice:latch_reset_0",
                            Init::One => "choice:latch_reset_1",
                            Init::Own => "choice:latch_uninitialised",
                        });
                    }
                    for s in &doc.symbols {
                        rep.inc(&format!("choice:symbol_kind:{}", s.0 as char));
                    }
                    if doc.comment.is_some() {
                        rep.inc("choice:comment");
                    }
                    if binary_shape {
                        for g in &doc.ands {
                            rep.inc(&format!("choice:varint_len:{}", varint_len(g.0 - g.1)));
                            rep.inc(&format!("choice:varint_len:{}", varint_len(g.1 - g.2)));
                        }
                        let swap = rng.chance(1, 3);
                        if swap {
                            rep.inc("choice:gate_inputs_given_smaller_first");
                        }
                        // binary writer -> binary parser
                        let mut bcfg = cfg;
                        bcfg.pk = PK::Aig;
                        let written = sut(|| write_aiger(&doc, cfg.lt, 2, swap));
                        let expected = gen::render_aiger(&doc, cfg.lt).items;
                        if !self.judge(rep, bcfg, &written, &expected, "binary write_ordered_aig(value)->parse", expected.len() >= 2) {
                            return;
                        }
                        if rng.chance(1, 2) {
                            // the same bytes through the section readers, moving on before a section is
                            // exhausted: the entries asked for are the written ones, the end is clean
                            let mut scfg = bcfg;
                            scfg.sections = true;
                            scfg.skip = drive::random_skip(rng);
                            let part = drive::filter_skipped(&expected, scfg.skip);
                            rep.inc("aiger_section_skipping_roundtrips");
                            if !self.judge(rep, scfg, &written, &part, "binary write_ordered_aig(value)->section readers, skipping", false) {
                                return;
                            }
                        }
                        // ascii writer for ordered circuits -> ascii parser (not with astronomically many inputs)
                        if doc.n_inputs <= 5000 {
                            let mut acfg = cfg;
                            acfg.pk = PK::Aag;
                            let eq = ascii_equivalent(&doc, swap);
                            let written = sut(|| write_aiger(&doc, cfg.lt, 1, swap));
                            let expected = gen::render_aiger(&eq, cfg.lt).items;
                            if !self.judge(rep, acfg, &written, &expected, "ascii write_ordered_aig(value)->parse", expected.len() >= 2) {
                                return;
                            }
                            let written = sut(|| write_aiger(&doc, cfg.lt, 3, swap));
                            self.judge(
                                rep,
                                acfg,
                                &written,
                                &expected,
                                "ascii write_aig(Aig::from(ordered value))->parse",
                                expected.len() >= 2,
                            );
                        }
                    } else {
                        let written = sut(|| write_aiger(&doc, cfg.lt, 0, false));
                        let expected = gen::render_aiger(&doc, cfg.lt).items;
                        if !self.judge(rep, cfg, &written, &expected, "ascii write_aig(value)->parse", expected.len() >= 2) {
                            return;
                        }
                        if rng.chance(1, 2) {
                            let mut scfg = cfg;
                            scfg.sections = true;
                            scfg.skip = drive::random_skip(rng);
                            let part = drive::filter_skipped(&expected, scfg.skip);
                            rep.inc("aiger_section_skipping_roundtrips");
                            self.judge(rep, scfg, &written, &part, "ascii write_aig(value)->section readers, skipping", false);
                        }
                    }
                }
                _ => {
                    let mut doc = gen::gen_btor(rng, size.min(400), false);
                    // hostile constant candidates for the validating constructors
                    for line in doc.lines.iter_mut() {
                        if let BLine::Node {
                            kind: BKind::Const(_, _, digits),
                            ..
                        } = line
                        {
                            if rng.chance(1, 3) {
                                // the empty string as well: the constructors must refuse it
                                let n = rng.usize(7);
                                *digits = (0..n)
                                    .map(|i| {
                                        if rng.chance(1, 12) {
                                            // characters that are "digits" or "numeric" for Unicode but not for BTOR2
                                            return *rng.pick(&['\u{663}', '\u{ff13}', '\u{b2}', '\u{2167}', '\u{96b}', '\u{7c3}', '\u{1d7d7}', 'é']);
                                        }
                                        let a: &[u8] = if i == 0 { b"-019afAFgx" } else { b"0123456789abcdefABCDEFgx-" };
                                        *rng.pick(a) as char
                                    })
                                    .collect();
                                if !digits.is_ascii() {
                                    rep.inc("btor_const_candidates_with_non_ascii_characters");
                                }
                            }
                        }
                    }
                    for line in &doc.lines {
                        match line {
                            BLine::Node {
                                kind: BKind::Justice(ns),
                                ..
                            } if ns.len() > 4096 => rep.inc("choice:btor_justice_with_more_than_4096_nodes"),
                            BLine::Node {
                                kind: BKind::Const(_, _, d),
                                ..
                            } if d.len() > 4096 => rep.inc("choice:btor_constant_with_more_than_4096_digits"),
                            BLine::Node { symbol: Some(x), .. } if x.len() > 16384 => rep.inc("choice:btor_symbol_longer_than_chunk"),
                            BLine::Node { comment: Some(x), .. } if x.len() > 16384 => rep.inc("choice:btor_comment_longer_than_chunk"),
                            _ => {}
                        }
                        if let BLine::Node { kind, symbol, comment, .. } = line {
                            let k = match kind {
                                BKind::SortBitvec(_) => "sort_bitvec",
                                BKind::SortArray(..) => "sort_array",
                                BKind::Const(k, ..) => k,
                                BKind::Nullary(k, _) => k,
                                BKind::Ext(k, ..) => k,
                                BKind::Slice(..) => "slice",
                                BKind::Unary(k, ..) => k,
                                BKind::Binary(k, ..) => k,
                                BKind::Ternary(k, ..) => k,
                                BKind::Assign(k, ..) => k,
                                BKind::Out(k, _) => k,
                                BKind::Justice(_) => "justice",
                            };
                            rep.inc(&format!("choice:btor:{}", k));
                            if symbol.is_some() {
                                rep.inc("choice:btor_symbol");
                            }
                            if comment.is_some() {
                                rep.inc("choice:btor_node_comment");
                            }
                        } else {
                            rep.inc("choice:btor_comment_line");
                        }
                    }
                    let (written, expected, shown) = sut(|| write_btor(&doc, rep));
                    if !self.judge(rep, cfg, &written, &expected, "Line::write_into(value)->parse", expected.len() >= 2) {
                        return;
                    }
                    // Display is lossy for non-UTF-8 symbols/comments by its signature; judged on UTF-8 documents
                    if std::str::from_utf8(&written).is_ok() {
                        rep.inc("btor_documents_also_through_display");
                        self.judge(rep, cfg, &shown, &expected, "Line::to_string(value)->parse", expected.len() >= 2);
                    } else {
                        rep.inc("btor_documents_not_utf8_display_skipped");
                    }
                }
            }
        } else {
            // ---------------- direction 2: every accepted text
            cfg.flag = pk.is_dimacs() && rng.chance(1, 4);
            let input = corpus::draw(rng, cfg, size.min(300));
            let first = sut(|| {
                drive::run_collect(
                    cfg,
                    Ctor::Chunk(16384),
                    Src::from_bytes(&input.bytes, Policy::OneShot, 0),
                )
            });
            if first.outcome != Outcome::End {
                rep.inc("direction2_input_rejected");
                return;
            }
            rep.inc("direction2_accepted_texts");
            let Some(rewritten) = sut(|| rewrite(cfg, &input.bytes)) else {
                rep.inc("harness_rewrite_failed");
                return;
            };
            self.judge(rep, cfg, &rewritten, &first.items, "parse(text)->write->parse", first.items.len() >= 2);
        }
    }
}
