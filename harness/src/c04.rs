//! C04 - a failing source is always reported as an I/O error.
//!
//! Fault enumeration: for an input b and EVERY fault offset k in 0..=len(b) the source delivers
//! b[..k] (under some schedule) and then fails with a non-Interrupted error, forever.
//! Oracle (from the fault-free run of the same input with 1-byte reads and chunk size 1, whose number
//! of read calls `looked` is exactly how far the parser looked, end-of-data probe included):
//!   * the final result is never End;
//!   * it is Io, or it is the fault-free run's Syntax(line,col) and looked <= k;
//!   * item i of the faulting run equals item i of the fault-free run;
//!   * (recorded for C09) the source is not called again after it failed.

use crate::corpus;
use crate::drive::{self, Ctor, Outcome, PK};
use crate::json::J;
use crate::prng::{Rng, H};
use crate::src::{Policy, Src};
use crate::work::{sut, Monitor, Report};
use std::rc::Rc;

pub struct C04 {
    pub max_len: usize,
}

impl Monitor for C04 {
    fn case(&mut self, idx: u64, rng: &mut Rng, rep: &mut Report) {
        let pk = drive::ALL_PK[(idx % 7) as usize];
        let cfg = drive::random_cfg_skip(rng, pk);
        let mut input = corpus::draw(rng, cfg, 8);
        if input.bytes.len() > self.max_len {
            input.bytes.truncate(self.max_len);
        }
        let bytes = &input.bytes;
        let len = bytes.len();
        let data = Rc::new(bytes.clone());
        rep.inc("inputs");
        rep.inc(&format!("class:{}", input.class.name()));
        rep.inc(&format!("parser:{}", pk.name()));
        // fault-free reference, minimal look-ahead regime
        let ref_src = Src::new(data.clone(), Policy::Fixed(1), 0);
        let reference = sut(|| drive::run_collect(cfg, Ctor::Chunk(1), ref_src.clone()));
        let looked = ref_src.log().calls as usize;
        match &reference.outcome {
            Outcome::End => rep.inc("ref_accepted"),
            Outcome::Syntax { .. } => rep.inc("ref_syntax_error"),
            Outcome::Io(_) => rep.inc("ref_io"),
        }
        // where does the document end? (coverage of end-of-input acceptors)
        if reference.outcome == Outcome::End {
            let last_item = reference.items.last().map(|s| s.as_str()).unwrap_or("");
            if last_item.starts_with("COMMENT") {
                rep.inc("accepted_ending_in_comment");
            }
            if last_item.contains("|com=") {
                rep.inc("accepted_ending_in_node_comment");
            }
            if bytes.last() != Some(&b'\n') {
                rep.inc("accepted_without_final_newline");
            }
        }
        let alt_chunk = *rng.pick(&[2usize, 3, 7, 8, 9, 16, 17, 64, 16384]);
        // the second run of every fault offset goes through one of the other ways to build a parser
        let alt_ctor = if rng.chance(1, 2) { drive::random_ctor(rng) } else { Ctor::Chunk(alt_chunk) };
        for k in 0..=len {
            for variant in 0..2 {
                let (policy, ctor) = if variant == 0 {
                    (Policy::Fixed(1), Ctor::Chunk(1))
                } else {
                    (
                        match (k + idx as usize) % 3 {
                            0 => Policy::OneShot,
                            1 => Policy::Random {
                                mean_x10: 40,
                                interrupts: k % 2 == 0,
                            },
                            _ => Policy::Fixed(1 + k % 7),
                        },
                        alt_ctor,
                    )
                };
                // variant 1: the source may fail only once and then report a plain end or go on delivering
                // (a reader that has been told about an error must not depend on hearing it again)
                // (not where the harness's own BufReader prefill would be the one to receive the error)
                let prefill_gets_it = k == 0 && matches!(ctor, Ctor::FromBufReader(_));
                let after = if variant == 1 && !prefill_gets_it { ((k as u64 + idx / 7) % 3) as u8 } else { 0 };
                let mut src = Src::new(data.clone(), policy.clone(), (k as u64) << 8 | idx).failing_once_at(k, after);
                if after != 0 {
                    rep.inc("fault_runs_with_a_failure_that_is_not_repeated");
                }
                if variant == 1 && (k + idx as usize) % 11 == 0 {
                    // a storm of Interrupted results in front of an early read (possibly the failing one)
                    src = src.with_storm(1 + (k as u64 % 5), [129u32, 300, 1000][k % 3]);
                }
                let tr = sut(|| drive::run_collect(cfg, ctor, src.clone()));
                rep.inc("fault_runs");
                let log = src.log();
                if log.err_returned > 0 {
                    rep.inc("fault_runs_error_seen");
                }
                let mut problems: Vec<String> = vec![];
                match &tr.outcome {
                    Outcome::End => problems.push(
                        "input reported as completely parsed although the source failed".into(),
                    ),
                    Outcome::Io(_) => {
                        rep.inc("final_io");
                        if log.err_returned == 0 {
                            problems.push("I/O error reported although the source never failed".into());
                        }
                    }
                    Outcome::Syntax { line, col, msg } => {
                        let same_as_fault_free = reference.outcome.key() == tr.outcome.key();
                        if same_as_fault_free && looked <= k {
                            rep.inc("final_fault_free_syntax_error_before_fault");
                        } else {
                            problems.push(format!(
                                "syntax error {}:{} ({}) reported for data that merely ends where the source failed (fault-free run: {}, which looks at {} bytes; fault offset {})",
                                line,
                                col,
                                msg,
                                reference.outcome.describe(),
                                looked,
                                k
                            ));
                        }
                    }
                }
                for (i, it) in tr.items.iter().enumerate() {
                    if reference.items.get(i) != Some(it) {
                        problems.push(format!(
                            "item {} handed out before the error is {:?} but the fault-free run returns {:?} at that index",
                            i,
                            it,
                            reference.items.get(i)
                        ));
                        break;
                    }
                }
                if log.calls_after_end > 0 {
                    rep.inc("source_called_after_failure");
                }
                if k > 0 && k < len && log.err_returned > 0 {
                    rep.inc("nontrivial_fault_runs");
                    if rep.hashes.len() < 150_000 {
                        rep.nontrivial(H::new().b(bytes).u(cfg.code()).u(k as u64).u(variant).get());
                    }
                }
                if !problems.is_empty() {
                    rep.violation(
                        &format!(
                            "{}:{}",
                            pk.name(),
                            match &tr.outcome {
                                Outcome::End => "end",
                                Outcome::Syntax { .. } => "syntax",
                                Outcome::Io(_) => "io",
                            }
                        ),
                        J::obj()
                            .set("parser", J::s(cfg.describe()))
                            .set("input", J::bytes(bytes))
                            .set("input_class", J::s(input.class.name()))
                            .set("fault_offset", J::u(k))
                            .set("schedule", J::s(policy.describe()))
                            .set("ctor", J::s(ctor.describe()))
                            .set("outcome", J::s(tr.outcome.describe()))
                            .set("items_before", J::u(tr.items.len()))
                            .set("fault_free_outcome", J::s(reference.outcome.describe()))
                            .set("fault_free_looked", J::u(looked))
                            .set("problems", J::A(problems.into_iter().map(J::s).collect())),
                    );
                    return;
                }
            }
        }
        rep.sample(|| {
            J::obj()
                .set("parser", J::s(cfg.describe()))
                .set("input", J::bytes(&bytes[..len.min(200)]))
                .set("fault_offsets_enumerated", J::u(len + 1))
                .set("fault_free_outcome", J::s(reference.outcome.describe()))
                .set("fault_free_looked", J::u(looked))
        });
    }
}
