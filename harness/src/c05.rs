//! C05 - every input terminates with Ok or Err and bounded resources.
//!
//! Per input: the parser is driven to its final result inside catch_unwind with the counting
//! allocator's window open. Violations: a panic (incl. arithmetic overflow / debug assertion in the
//! chk build), more items than input bytes + 1 (no progress), peak live heap above
//! 64*delivered + 2 MiB, a single allocation request above 1 GiB (refused -> abort -> attributed by
//! the driver), abort / signal / stack overflow / CPU-time limit (SIGVTALRM) - all of the latter are
//! seen by the driver as the death of the worker at a journalled case.

use crate::alloc::{self, Window};
use crate::corpus;
use crate::drive::{self, Ctor, Outcome, PK};
use crate::json::J;
use crate::prng::{Rng, H};
use crate::src::{Policy, Src};
use crate::work::{sut_caught, Monitor, Report};
use std::collections::HashSet;
use std::rc::Rc;

pub struct C05 {
    pub templates: HashSet<String>,
    pub max_size: usize,
    /// only run the workload (for sanitizer layers of other properties): no violation is emitted,
    /// a sanitizer report / crash is what the driver looks for
    pub quiet: bool,
}

impl C05 {
    pub fn new(max_size: usize, quiet: bool) -> C05 {
        alloc::set_ceiling(1 << 30);
        C05 {
            templates: HashSet::new(),
            max_size,
            quiet,
        }
    }
}

pub fn template(msg: &str) -> String {
    // mask numbers and quoted excerpts
    let mut out = String::new();
    let mut in_quote = false;
    let mut last_digit = false;
    for c in msg.chars() {
        if c == '"' {
            in_quote = !in_quote;
            if !in_quote {
                out.push_str("\"..\"");
            }
            continue;
        }
        if in_quote {
            continue;
        }
        if c.is_ascii_digit() {
            if !last_digit {
                out.push('#');
            }
            last_digit = true;
        } else {
            last_digit = false;
            out.push(c);
        }
    }
    out.chars().take(90).collect()
}

impl Monitor for C05 {
    fn case(&mut self, idx: u64, rng: &mut Rng, rep: &mut Report) {
        let pk = drive::ALL_PK[(idx % 7) as usize];
        let cfg = drive::random_cfg_skip(rng, pk);
        let size = match rng.below(300) {
            0 => self.max_size,
            1..=10 => 200.min(self.max_size),
            _ => 10,
        };
        let mut input = corpus::draw(rng, cfg, size);
        let mut giant = false;
        if self.max_size >= 3000 && rng.chance(1, 30_000) {
            // a giant item: more than 2^20 entries in one clause / value line / justice line / section
            // (internal buffers and their recycling are sized by the largest item seen), followed by an
            // empty and an ordinary item
            let n = *rng.pick(&[(1usize << 20) + 1, 1_500_000, (1 << 21) + 1]);
            let mut b: Vec<u8> = Vec::with_capacity(n * 3 + 100);
            match pk {
                PK::Cnf | PK::Wcnf | PK::Gcnf => {
                    let pre: &[u8] = match pk {
                        PK::Wcnf => b"3 ",
                        PK::Gcnf => b"{2} ",
                        _ => b"",
                    };
                    b.extend_from_slice(pre);
                    for i in 0..n {
                        b.extend_from_slice(if i % 2 == 0 { b"1 " } else { b"-2 " });
                    }
                    b.extend_from_slice(b"0\n");
                    b.extend_from_slice(pre);
                    b.extend_from_slice(b"0\n");
                    b.extend_from_slice(pre);
                    b.extend_from_slice(b"1 -1 0\n");
                }
                PK::Log => {
                    b.extend_from_slice(b"s SATISFIABLE\nv ");
                    for i in 0..n {
                        b.extend_from_slice(if i % 2 == 0 { b"1 " } else { b"-2 " });
                    }
                    b.extend_from_slice(b"0\n");
                }
                PK::Btor2 => {
                    b.extend_from_slice(b"1 sort bitvec 1\n2 input 1\n3 justice ");
                    b.extend_from_slice(n.to_string().as_bytes());
                    for _ in 0..n {
                        b.extend_from_slice(b" 2");
                    }
                    b.extend_from_slice(b"\n4 justice 1 2\n");
                }
                PK::Aag | PK::Aig => {
                    b.extend_from_slice(if pk == PK::Aag { b"aag" } else { b"aig" });
                    b.extend_from_slice(format!(" 0 0 0 {} 0 0 0 2\n", n).as_bytes());
                    for _ in 0..n {
                        b.extend_from_slice(b"1\n");
                    }
                    // two justice properties: an empty one and one with two literals
                    b.extend_from_slice(b"0\n2\n0\n1\n");
                }
            }
            rep.inc("giant_item_documents");
            giant = true;
            input = corpus::Input {
                bytes: b,
                class: corpus::Class::Hostile,
                doc: None,
            };
        }
        if matches!(pk, PK::Aag | PK::Aig) && rng.chance(1, 500) {
            // the circuit-level entry point of aig.rs: a ring of 1..=24 gates (with side inputs and random
            // polarities), reachable from an output, must be answered - FoundCycle - not descended into forever
            let lt = cfg.lt;
            let n_in = 1 + rng.usize(3);
            let k = (1 + rng.usize(24)).min(((crate::gen::max_code(lt) - 1) / 2) as usize - n_in);
            let mut g = crate::c12::Graph::default();
            for i in 0..n_in {
                g.inputs.push(2 * (i as u64 + 1));
            }
            let gate = |j: usize| 2 * (n_in + 1 + j) as u64;
            for j in 0..k {
                let next = gate((j + 1) % k) ^ rng.below(2);
                let side = match rng.below(3) {
                    0 => 1,
                    1 => g.inputs[rng.usize(n_in)] ^ rng.below(2),
                    _ => next,
                };
                g.ands.push(if rng.chance(1, 2) { (gate(j), next, side) } else { (gate(j), side, next) });
            }
            // file order of the gates is free
            for i in (1..g.ands.len()).rev() {
                let j = rng.usize(i + 1);
                g.ands.swap(i, j);
            }
            g.m = (n_in + k) as u64;
            g.outputs.push(gate(rng.usize(k)) ^ rng.below(2));
            let opts = rng.below(8) as u8;
            let win = Window::open();
            let r = sut_caught(|| crate::c12::run(&g, lt, opts, &[]));
            let peak = win.peak();
            rep.inc("ring_circuits");
            let mut problems: Vec<String> = vec![];
            match r {
                Err((msg, loc)) => problems.push(format!("panicked: {} at {}", msg, loc)),
                Ok(crate::c12::RenRes::Err("FoundCycle", _)) => rep.inc("ring_circuits_answered_with_FoundCycle"),
                Ok(crate::c12::RenRes::Err(other, l)) => problems.push(format!("answered with {} (literal {})", other, l)),
                Ok(crate::c12::RenRes::Ok(_)) => problems.push("a circuit with a reachable cycle was renumbered".into()),
            }
            if peak > (2 << 20) {
                problems.push(format!("peak live heap {} bytes for a circuit of {} gates", peak, k));
            }
            rep.nontrivial(H::new().u(5005).u(k as u64).u(opts as u64).u(lt as u64).get());
            if !problems.is_empty() && !self.quiet {
                rep.violation(
                    "aig:ring_circuit",
                    J::obj()
                        .set("ring_of_gates", J::u(k))
                        .set("renumber_options_bits", J::U(opts as u64))
                        .set("and_gates", J::A(g.ands.iter().map(|a| J::s(format!("{} = {} & {}", a.0, a.1, a.2))).collect()))
                        .set("output", J::U(g.outputs[0]))
                        .set("problems", J::A(problems.into_iter().map(J::s).collect())),
                );
            }
        }
        let bytes = &input.bytes;
        let len = bytes.len();
        let data = Rc::new(bytes.clone());
        rep.inc("inputs");
        rep.inc(&format!("class:{}", input.class.name()));
        rep.inc(&format!("parser:{}", pk.name()));
        let (policy, ctor) = match rng.below(5) {
            0 => (Policy::Fixed(1), Ctor::Chunk(1)),
            1 => (
                Policy::Random {
                    mean_x10: 40,
                    interrupts: false,
                },
                Ctor::Chunk(*rng.pick(&[2usize, 7, 8, 9, 16, 64])),
            ),
            2 => (Policy::OneShot, drive::random_ctor(rng)),
            _ => (Policy::OneShot, Ctor::Chunk(16384)),
        };
        let src = Src::new(data.clone(), policy.clone(), idx);
        let mut n_items = 0u64;
        let mut second_token = false;
        let win = Window::open();
        let r = sut_caught(|| {
            drive::run(cfg, ctor, src.clone(), &mut |s: &str| {
                n_items += 1;
                if n_items >= 2 || s.len() > 4 {
                    second_token = true;
                }
            })
        });
        let peak = win.peak();
        let largest = win.largest();
        let delivered = src.delivered();
        rep.max("peak_live_bytes", peak as u64);
        rep.max("largest_single_request", largest as u64);
        let bound = 64 * delivered + (2 << 20);
        let mut problems: Vec<String> = vec![];
        let mut kind = String::new();
        match &r {
            Err((msg, loc)) => {
                kind = format!("panic@{}", loc.rsplit('/').next().unwrap_or(loc));
                problems.push(format!("panicked: {} at {}", msg, loc));
            }
            Ok(out) => {
                match out {
                    Outcome::End => {
                        rep.inc("accepted");
                        if giant {
                            rep.inc("giant_item_documents_accepted");
                        }
                    }
                    Outcome::Syntax { msg, .. } => {
                        rep.inc("syntax_errors");
                        let t = format!("{}:{}", pk.name(), template(msg));
                        if self.templates.insert(t.clone()) {
                            rep.inc("distinct_error_templates_in_worker");
                            rep.extra_pairs(crate::prng::fnv(t.as_bytes()));
                        }
                        second_token = second_token || len > 2;
                    }
                    Outcome::Io(m) => problems.push(format!("I/O error without a failing source: {}", m)),
                }
                if n_items > len as u64 + 1 {
                    kind = "no_progress".into();
                    problems.push(format!(
                        "{} items returned from {} input bytes (an item must consume input)",
                        n_items, len
                    ));
                }
            }
        }
        if peak > bound {
            kind = "memory".into();
            problems.push(format!(
                "peak live heap {} bytes while parsing {} delivered bytes (bound 64*delivered + 2 MiB = {}), largest single request {}",
                peak, delivered, bound, largest
            ));
        }
        if second_token {
            rep.inc("nontrivial_inputs");
            rep.nontrivial(H::new().b(bytes).u(cfg.code()).get());
            if rep.want_sample() && len > 20 {
                rep.sample(|| {
                    J::obj()
                        .set("parser", J::s(cfg.describe()))
                        .set("input", J::bytes(&bytes[..len.min(200)]))
                        .set("input_class", J::s(input.class.name()))
                        .set(
                            "outcome",
                            J::s(match &r {
                                Ok(o) => o.describe(),
                                Err(e) => format!("panic {}", e.0),
                            }),
                        )
                        .set("items", J::U(n_items))
                        .set("peak_live_bytes", J::u(peak))
                });
            }
        }
        if !problems.is_empty() && self.quiet {
            rep.inc("problems_not_reported_in_quiet_mode");
        } else if !problems.is_empty() {
            rep.violation(
                &format!("{}:{}", pk.name(), kind),
                J::obj()
                    .set("parser", J::s(cfg.describe()))
                    .set("input", J::bytes(bytes))
                    .set("input_class", J::s(input.class.name()))
                    .set("schedule", J::s(policy.describe()))
                    .set("ctor", J::s(ctor.describe()))
                    .set("problems", J::A(problems.into_iter().map(J::s).collect())),
            );
        }
    }
    fn finish(&mut self, rep: &mut Report) {
        let mut v: Vec<&String> = self.templates.iter().collect();
        v.sort();
        rep.extra.insert(
            "error_templates_sample".into(),
            J::A(v.iter().take(40).map(|s| J::s((*s).clone())).collect()),
        );
    }
}
