//! C06 - accepted input means what it says: exact numbers, enforced limits.
//!
//! For every input a parser ACCEPTS, the returned items must equal what an independent lexical
//! reading of the same bytes (refread.rs: arbitrary-precision decimals, no shared code) yields, and
//! that reading must find every declared limit respected. Inputs come from the shared corpus and
//! from a generator aimed at the limits: one number token of a well-formed document is moved to just
//! below / at / just above its limit (with leading zeros, both signs), header counts are moved by
//! one, defining literals are made odd or zero.

use crate::c13::{dec_dec, inc_dec};
use crate::corpus;
use crate::drive::{self, Ctor, Outcome, PK};
use crate::gen::{Doc, Role};
use crate::json::J;
use crate::prng::{Rng, H};
use crate::refread::{self, Ref};
use crate::src::{Policy, Src};
use crate::work::{sut, Monitor, Report};
use std::rc::Rc;

pub struct C06 {}

/// Returns (mutated bytes, description) - one number token moved to a limit.
pub fn limit_mutation(rng: &mut Rng, pk: PK, doc: &Doc) -> Option<(Vec<u8>, String)> {
    // binary AIGER: re-encode one delta as an over-long / maximal-length 7-bit code
    let bins: Vec<usize> = doc
        .toks
        .iter()
        .enumerate()
        .filter(|(_, t)| t.role == Role::Binary)
        .map(|(i, _)| i)
        .collect();
    if !bins.is_empty() && rng.chance(1, 3) {
        let t = &doc.toks[bins[rng.usize(bins.len())]];
        let old = &doc.bytes[t.off..t.off + t.len];
        // the 7-bit groups of the original value, padded to `len` groups, last group `top`
        let mut groups: Vec<u8> = old.iter().map(|b| b & 0x7f).collect();
        let len = *rng.pick(&[2usize, 9, 10, 10, 10, 11]);
        let top = *rng.pick(&[0u8, 1, 2, 3, 0x40, 0x7f]);
        if groups.len() >= len {
            groups.truncate(len - 1);
        }
        while groups.len() < len - 1 {
            groups.push(0);
        }
        groups.push(top);
        let n = groups.len();
        let new: Vec<u8> = groups
            .iter()
            .enumerate()
            .map(|(i, g)| if i + 1 < n { g | 0x80 } else { *g })
            .collect();
        let mut out = doc.bytes[..t.off].to_vec();
        out.extend_from_slice(&new);
        out.extend_from_slice(&doc.bytes[t.off + t.len..]);
        return Some((
            out,
            format!(
                "binary {} at offset {} re-encoded in {} groups with top group {:#x}",
                t.what, t.off, len, top
            ),
        ));
    }
    let nums: Vec<usize> = doc
        .toks
        .iter()
        .enumerate()
        .filter(|(_, t)| t.role == Role::Num)
        .map(|(i, _)| i)
        .collect();
    if nums.is_empty() {
        return None;
    }
    // prefer tokens with a known limit
    let with_limit: Vec<usize> = nums.iter().copied().filter(|&i| doc.toks[i].limit.is_some()).collect();
    let ti = if !with_limit.is_empty() && rng.chance(3, 4) {
        with_limit[rng.usize(with_limit.len())]
    } else {
        nums[rng.usize(nums.len())]
    };
    let t = &doc.toks[ti];
    let old = String::from_utf8_lossy(&doc.bytes[t.off..t.off + t.len]).to_string();
    let old_mag = old.trim_start_matches('-').trim_start_matches('0');
    let old_mag = if old_mag.is_empty() { "0" } else { old_mag };
    let base: String = match (&t.limit, rng.below(8)) {
        (Some(l), 0) => l.clone(),
        (Some(l), 1) => inc_dec(l),
        (Some(l), 2) if l != "0" => dec_dec(l),
        (Some(l), 3) => format!("{}0", l),
        (_, 4) => inc_dec(old_mag),
        (_, 5) if old_mag != "0" => dec_dec(old_mag),
        (_, 6) => "18446744073709551616".into(),
        _ => inc_dec(old_mag),
    };
    let mut new = String::new();
    let signed = pk.is_dimacs() && t.what == "lit" || pk == PK::Log && t.what == "value";
    if signed && (old.starts_with('-') ^ rng.chance(1, 4)) {
        new.push('-');
    }
    if (pk.is_dimacs() || pk == PK::Log) && rng.chance(1, 3) {
        new.push_str(&"0".repeat(1 + rng.usize(30)));
    }
    new.push_str(&base);
    let mut out = doc.bytes[..t.off].to_vec();
    out.extend_from_slice(new.as_bytes());
    out.extend_from_slice(&doc.bytes[t.off + t.len..]);
    Some((out, format!("token '{}' ({}) at offset {} -> '{}'", old, t.what, t.off, new)))
}

impl Monitor for C06 {
    fn case(&mut self, idx: u64, rng: &mut Rng, rep: &mut Report) {
        let pk = drive::ALL_PK[(idx % 7) as usize];
        let cfg = drive::random_cfg(rng, pk);
        let mut note = String::new();
        let input = if rng.chance(1, 2) {
            // limit-aimed
            let density = *rng.pick(&[0u64, 20]);
            let doc = crate::c07::gen_doc(rng, cfg, 8, density);
            match limit_mutation(rng, pk, &doc) {
                Some((bytes, d)) => {
                    note = d;
                    rep.inc("limit_aimed_inputs");
                    corpus::Input {
                        bytes,
                        class: corpus::Class::Mutated,
                        doc: None,
                    }
                }
                None => corpus::Input {
                    bytes: doc.bytes.clone(),
                    class: corpus::Class::Generated,
                    doc: Some(doc),
                },
            }
        } else {
            // now and then a large document (sections / clauses / lines with more than 4096 entries)
            let size = if rng.chance(1, 300) { 2500 } else { 10 };
            corpus::draw(rng, cfg, size)
        };
        let bytes = &input.bytes;
        let data = Rc::new(bytes.clone());
        rep.inc("inputs");
        rep.inc(&format!("parser:{}", pk.name()));
        rep.inc(&format!("lit:{}", pk.lit_name(cfg.lt)));
        let reference = refread::read(cfg, bytes);
        // both scanner paths judge each number: one-shot (SWAR) and 1-byte/chunk-1 (byte-wise)
        // AIGER: a third run goes through the section readers and moves on before sections are
        // exhausted; what it hands out must still be what the text says at those places
        let skip = if pk.is_aiger() { drive::random_skip(rng) } else { 0 };
        for (run, (policy, ctor, skip)) in [
            (Policy::OneShot, Ctor::Chunk(16384), 0),
            (Policy::Fixed(1), Ctor::Chunk(1), 0),
            (Policy::OneShot, Ctor::Chunk(16384), skip),
        ]
        .into_iter()
        .enumerate()
        {
            if run == 2 && skip == 0 {
                continue;
            }
            let mut cfg = cfg;
            let filtered: Ref;
            let mut reference = &reference;
            if skip != 0 {
                cfg.sections = true;
                cfg.skip = skip;
                rep.inc("aiger_section_skipping_parses");
                filtered = match reference {
                    Ref::Accept(items) => Ref::Accept(drive::filter_skipped(items, skip)),
                    Ref::Reject(w) => Ref::Reject(w.clone()),
                };
                reference = &filtered;
            }
            let tr = sut(|| drive::run_collect(cfg, ctor, Src::new(data.clone(), policy.clone(), 0)));
            rep.inc("parses");
            match (&tr.outcome, reference) {
                (Outcome::End, Ref::Accept(items)) => {
                    rep.inc("accepted_and_confirmed");
                    rep.count("items_compared", items.len() as u64);
                    if &tr.items != items {
                        let first = (0..tr.items.len().max(items.len())).find(|&i| tr.items.get(i) != items.get(i));
                        rep.violation(
                            &format!("{}:value", pk.name()),
                            J::obj()
                                .set("parser", J::s(cfg.describe()))
                                .set("input", J::bytes(bytes))
                                .set("mutation", J::s(note.clone()))
                                .set("schedule", J::s(policy.describe()))
                                .set("index", J::u(first.unwrap_or(0)))
                                .set(
                                    "parser_item",
                                    J::s(first.and_then(|i| tr.items.get(i).cloned()).unwrap_or_else(|| "<none>".into())),
                                )
                                .set(
                                    "text_says",
                                    J::s(first.and_then(|i| items.get(i).cloned()).unwrap_or_else(|| "<none>".into())),
                                ),
                        );
                        return;
                    }
                    if !note.is_empty() {
                        rep.inc("limit_aimed_accepted");
                    }
                    if tr.items.len() >= 2 {
                        rep.nontrivial(H::new().b(bytes).u(cfg.code()).get());
                        if rep.want_sample() && !note.is_empty() {
                            rep.sample(|| {
                                J::obj()
                                    .set("parser", J::s(cfg.describe()))
                                    .set("input", J::bytes(&bytes[..bytes.len().min(200)]))
                                    .set("limit_mutation", J::s(note.clone()))
                                    .set("verdict", J::s("accepted by parser and by the reference reading with identical items"))
                            });
                        }
                    }
                }
                (Outcome::End, Ref::Reject(why)) => {
                    rep.violation(
                        &format!("{}:accepted", pk.name()),
                        J::obj()
                            .set("parser", J::s(cfg.describe()))
                            .set("input", J::bytes(bytes))
                            .set("mutation", J::s(note.clone()))
                            .set("schedule", J::s(policy.describe()))
                            .set("items", J::u(tr.items.len()))
                            .set("reference_rejects_because", J::s(why.clone())),
                    );
                    return;
                }
                (_, Ref::Reject(_)) => {
                    rep.inc("rejected_by_both");
                    if !note.is_empty() {
                        rep.inc("limit_aimed_rejected_by_both");
                        rep.nontrivial(H::new().b(bytes).u(cfg.code()).u(1).get());
                    }
                }
                (_, Ref::Accept(_)) => {
                    // stricter than the reference reading: not C06's concern (C03/C07 judge acceptance)
                    rep.inc("parser_rejects_reference_accepts");
                    if rep.counters.get("parser_rejects_reference_accepts").copied().unwrap_or(0) <= 3 {
                        rep.extra.insert(
                            format!("example_parser_stricter_{}", rep.cur),
                            J::obj()
                                .set("parser", J::s(cfg.describe()))
                                .set("input", J::bytes(&bytes[..bytes.len().min(300)]))
                                .set("outcome", J::s(tr.outcome.describe())),
                        );
                    }
                }
            }
        }
    }
}
