//! C07 - DIMACS-family and solver-log parsing is independent of layout.
//!
//! An abstract value (optional header + clauses, or status + assignment) is rendered by a layout
//! grammar that makes an independent random choice at every place the parsers document or test as
//! free; the parse must return exactly the abstract value and a clean end. Also used (mode=all) as
//! the acceptance self-check of the AIGER / BTOR2 generators against the real parsers.

use crate::drive::{self, Ctor, Outcome, PCfg, PK};
use crate::gen::{self, Layout};
use crate::json::J;
use crate::prng::{Rng, H};
use crate::src::{Policy, Src};
use crate::work::{sut, Monitor, Report};
use std::rc::Rc;

pub struct C07 {
    pub all_formats: bool,
}

pub fn gen_doc(rng: &mut Rng, cfg: PCfg, size: usize, density: u64) -> gen::Doc {
    match cfg.pk {
        PK::Cnf | PK::Wcnf | PK::Gcnf => {
            let consistent = !cfg.flag || rng.chance(1, 2);
            let d = gen::gen_dimacs(rng, cfg.pk, cfg.lt, consistent, size);
            let mut lr = rng.fork();
            let mut l = Layout {
                rng: Some(&mut lr),
                density,
            };
            gen::render_dimacs(&d, cfg.lt, &mut l)
        }
        PK::Log => {
            let d = gen::gen_log(rng, cfg.lt, size);
            let mut lr = rng.fork();
            let mut l = Layout {
                rng: Some(&mut lr),
                density,
            };
            gen::render_log(&d, cfg.flag, &mut l)
        }
        PK::Aag | PK::Aig => {
            // large documents: half of them with one section of more entries than any reservation cap
            let d = if size >= 2000 && rng.chance(1, 2) {
                let sec = if cfg.lt == 0 { 3 + rng.usize(7) } else { rng.usize(10) };
                let n = gen::long_count(rng);
                gen::gen_aiger_ext(rng, cfg.pk == PK::Aig, cfg.lt, 300, Some((sec, n)))
            } else {
                gen::gen_aiger(rng, cfg.pk == PK::Aig, cfg.lt, size)
            };
            gen::render_aiger(&d, cfg.lt)
        }
        PK::Btor2 => {
            let d = gen::gen_btor(rng, size, density > 0);
            gen::render_btor(&d)
        }
    }
}

pub fn small_schedule(rng: &mut Rng, len: usize) -> (Policy, Ctor) {
    let policy = match rng.below(5) {
        0 => Policy::Fixed(1),
        1 => Policy::Fixed(1 + rng.usize(9)),
        2 => Policy::Random {
            mean_x10: *rng.pick(&[15u64, 40, 160]),
            interrupts: rng.chance(1, 2),
        },
        3 => Policy::SplitAt(rng.usize(len + 1)),
        _ => Policy::Fixed(64),
    };
    let ctor = if rng.chance(1, 4) {
        drive::random_ctor(rng)
    } else {
        Ctor::Chunk(*rng.pick(&[1usize, 2, 3, 7, 8, 9, 16, 17, 64]))
    };
    (policy, ctor)
}

impl Monitor for C07 {
    fn case(&mut self, idx: u64, rng: &mut Rng, rep: &mut Report) {
        let pks: &[PK] = if self.all_formats {
            &drive::ALL_PK
        } else {
            &[PK::Cnf, PK::Wcnf, PK::Gcnf, PK::Log]
        };
        let pk = pks[(idx % pks.len() as u64) as usize];
        let mut cfg = drive::random_cfg(rng, pk);
        cfg.lt = ((idx / pks.len() as u64) % pk.n_lit_types() as u64) as u8;
        let density = *rng.pick(&[0u64, 10, 25, 40, 60]);
        let size = if rng.chance(1, 20) { 300 } else { 12 };
        let doc = gen_doc(rng, cfg, size, density);
        let data = Rc::new(doc.bytes.clone());
        rep.inc("renderings");
        rep.inc(&format!("parser:{}", pk.name()));
        rep.inc(&format!("lit:{}", pk.lit_name(cfg.lt)));
        let names: &[&str] = if pk == PK::Log { &gen::LOG_FEATURES } else { &gen::FEATURES };
        let mut used = vec![];
        if pk.is_dimacs() || pk == PK::Log {
            for (i, n) in names.iter().enumerate() {
                if doc.features & (1 << i) != 0 {
                    used.push(i);
                    rep.inc(&format!("feature:{}:{}", if pk == PK::Log { "log" } else { "dimacs" }, n));
                }
            }
            // pairwise interaction coverage (counted, not listed)
            for a in 0..used.len() {
                for b in a + 1..used.len() {
                    let key = (if pk == PK::Log { 1u64 << 32 } else { 0 }) | (used[a] as u64) << 8 | used[b] as u64;
                    rep.extra_pairs(key);
                }
            }
        }
        let (policy, ctor) = small_schedule(rng, doc.bytes.len());
        let runs = [
            (Policy::OneShot, Ctor::Chunk(16384)),
            (policy, ctor),
        ];
        for (policy, ctor) in runs.iter() {
            let src = Src::new(data.clone(), policy.clone(), rng.next());
            let tr = sut(|| drive::run_collect(cfg, *ctor, src));
            rep.inc("parses");
            let ok = tr.outcome == Outcome::End && tr.items == doc.items;
            if !ok {
                let first = (0..tr.items.len().max(doc.items.len()))
                    .find(|&i| tr.items.get(i) != doc.items.get(i));
                rep.violation(
                    &format!("{}:{}", pk.name(), if tr.outcome == Outcome::End { "value" } else { "rejected" }),
                    J::obj()
                        .set("parser", J::s(cfg.describe()))
                        .set("input", J::bytes(&doc.bytes))
                        .set("schedule", J::s(policy.describe()))
                        .set("ctor", J::s(ctor.describe()))
                        .set("outcome", J::s(tr.outcome.describe()))
                        .set("first_differing_item", match first {
                            Some(i) => J::obj()
                                .set("index", J::u(i))
                                .set("parsed", J::s(tr.items.get(i).cloned().unwrap_or_else(|| "<none>".into())))
                                .set("rendered_value", J::s(doc.items.get(i).cloned().unwrap_or_else(|| "<none>".into()))),
                            None => J::Null,
                        })
                        .set(
                            "layout_features",
                            J::A(used.iter().map(|&i| J::s(names[i])).collect()),
                        ),
                );
                return;
            }
        }
        if used.len() >= 3 || (!pk.is_dimacs() && pk != PK::Log && doc.items.len() >= 3) {
            rep.nontrivial(H::new().b(&doc.bytes).u(cfg.code()).get());
            if used.len() >= 6 {
                rep.sample(|| {
                    J::obj()
                        .set("parser", J::s(cfg.describe()))
                        .set("input", J::bytes(&doc.bytes))
                        .set("value", J::A(doc.items.iter().take(6).map(|s| J::s(s.clone())).collect()))
                        .set("layout_features", J::A(used.iter().map(|&i| J::s(names[i])).collect()))
                });
            }
        }
    }
    fn finish(&mut self, rep: &mut Report) {
        let n = rep.pairs.len() as u64;
        rep.count("feature_pairs_in_this_worker", n);
    }
}
