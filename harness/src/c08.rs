//! C08 - syntax errors point at the offending token.
//!
//! mode=range: every rejected input of the shared corpus, under several schedules: the reported
//! line must be between 1 and the number of lines + 1 and the column between 1 and that line's
//! length + 1. Binary AIGER uses the structural line model of the reference reader (0x0a bytes inside
//! the and-gate section are data).
//! mode=exact: a well-formed generated document (token map known) is corrupted at exactly one token
//! chosen from a catalogue whose error position is unambiguous; the reported line must be the token's
//! line and the column must lie on the (replacement) token.

use crate::c13::inc_dec;
use crate::corpus;
use crate::drive::{self, Ctor, Outcome, PCfg, PK};
use crate::gen::{self, Doc, Role, Tok};
use crate::json::J;
use crate::prng::{Rng, H};
use crate::refread;
use crate::src::{Policy, Src};
use crate::work::{sut, Monitor, Report};
use std::rc::Rc;

pub struct C08 {
    pub mode: String,
}

/// (start, length without the newline) of every line; the line after a final newline exists with length 0
pub fn line_table(cfg: PCfg, b: &[u8]) -> Vec<(usize, usize)> {
    let mut no_split: Option<(usize, usize)> = None;
    if cfg.pk == PK::Aig {
        let r = refread::read_aiger_full(cfg, b);
        if let Some((s, e)) = r.gate_section {
            let complete = r.gates_complete;
            // when decoding failed inside the section, the failing gate (at most 2 x 10 bytes) belongs to it
            no_split = Some((s, if complete { e } else { (e + 20).min(b.len()) }));
        }
    }
    let mut v = vec![];
    let mut start = 0;
    for (i, &c) in b.iter().enumerate() {
        if c == b'\n' {
            if let Some((s, e)) = no_split {
                if i >= s && i < e {
                    continue;
                }
            }
            v.push((start, i - start));
            start = i + 1;
        }
    }
    v.push((start, b.len() - start));
    v
}

fn schedules(rng: &mut Rng, len: usize) -> Vec<(Policy, Ctor)> {
    vec![
        (Policy::OneShot, Ctor::Chunk(16384)),
        (Policy::Fixed(1), Ctor::Chunk(1)),
        (
            crate::c01::random_policy(rng, len),
            Ctor::Chunk(*rng.pick(&[2usize, 3, 7, 8, 9, 16, 17, 64])),
        ),
        // every other public way of building the parser, incl. on a reader that was advanced before
        (crate::c01::random_policy(rng, len), drive::random_ctor(rng)),
    ]
}

#[derive(Debug)]
pub struct Corruption {
    pub bytes: Vec<u8>,
    pub line: usize,
    pub col_lo: usize,
    pub col_hi: usize,
    pub what: String,
}

fn splice(doc: &Doc, t: &Tok, new: &[u8]) -> Vec<u8> {
    let mut out = doc.bytes[..t.off].to_vec();
    out.extend_from_slice(new);
    out.extend_from_slice(&doc.bytes[t.off + t.len..]);
    out
}

fn tok_text<'a>(doc: &'a Doc, t: &Tok) -> &'a [u8] {
    &doc.bytes[t.off..t.off + t.len]
}

/// Picks one catalogue entry applicable to `doc`; None if nothing applies.
pub fn corrupt(rng: &mut Rng, cfg: PCfg, doc: &Doc) -> Option<Corruption> {
    let pk = cfg.pk;
    let n = doc.toks.len();
    if n == 0 {
        return None;
    }
    // two-token entry: two consecutive AIGER justice sizes that each fit usize while their running total
    // does not - the error belongs to the second one
    if pk.is_aiger() && rng.chance(1, 12) {
        let pairs: Vec<usize> = (1..n)
            .filter(|&i| doc.toks[i].what == "justice_size" && doc.toks[i - 1].what == "justice_size")
            .collect();
        if !pairs.is_empty() {
            let i = *rng.pick(&pairs);
            let (p, t) = (&doc.toks[i - 1], &doc.toks[i]);
            let a = rng.below(1000);
            // what the sizes in front of the pair already add up to
            let before: u128 = doc.toks[..i - 1]
                .iter()
                .filter(|x| x.what == "justice_size")
                .filter_map(|x| String::from_utf8_lossy(tok_text(doc, x)).parse::<u128>().ok())
                .sum();
            let prev_new = (usize::MAX as u128 - a as u128 - before.min(1 << 40)).to_string();
            let this_new = match rng.below(3) {
                0 => (a + 1).to_string(),
                1 => (a as u128 + 1 + rng.below(1000) as u128).to_string(),
                _ => (usize::MAX as u128 - rng.below(5) as u128).to_string(),
            };
            let mut out = doc.bytes[..p.off].to_vec();
            out.extend_from_slice(prev_new.as_bytes());
            out.extend_from_slice(&doc.bytes[p.off + p.len..t.off]);
            out.extend_from_slice(this_new.as_bytes());
            out.extend_from_slice(&doc.bytes[t.off + t.len..]);
            return Some(Corruption {
                bytes: out,
                line: t.line,
                col_lo: t.col,
                col_hi: t.col + this_new.len() - 1,
                what: format!(
                    "justice sizes '{}' then '{}': each fits usize, their total does not (error belongs to the second)",
                    prev_new, this_new
                ),
            });
        }
    }
    for _attempt in 0..40 {
        let ti = rng.usize(n);
        let t = &doc.toks[ti];
        let text = tok_text(doc, t);
        let window = |newlen: usize| -> (usize, usize) {
            if t.what == "group" {
                (t.col - 1, t.col + newlen)
            } else {
                (t.col, t.col + newlen.max(1) - 1)
            }
        };
        let mk = |new: Vec<u8>, what: String| -> Option<Corruption> {
            let (lo, hi) = window(new.len());
            Some(Corruption {
                bytes: splice(doc, t, &new),
                line: t.line,
                col_lo: lo,
                col_hi: hi,
                what,
            })
        };
        let kind = rng.below(8);
        match (&t.role, kind) {
            // garbage token in place of a number
            (Role::Num, 0 | 1) if t.what != "terminator" || pk.is_dimacs() => {
                if pk == PK::Log && t.what == "terminator" {
                    continue;
                }
                let g: &[&[u8]] = if pk.is_dimacs() || pk == PK::Log {
                    &[b"x7", b"@", b"7x", b"#1", b"--3", b"+4"]
                } else {
                    &[b"x7", b"@", b"#1", b"-3"]
                };
                let new = g[rng.usize(g.len())].to_vec();
                if t.what == "group" {
                    continue;
                }
                // "7x"-style: the scanner passes the digits, the error may sit on any byte of the token
                return mk(new.clone(), format!("garbage token '{}' in place of {} '{}'", String::from_utf8_lossy(&new), t.what, String::from_utf8_lossy(text)));
            }
            // one above the limit / overflowing the scanner's type
            (Role::Num, 2 | 3 | 4) => {
                let limit = match (&t.limit, t.what) {
                    (_, "lit") if cfg.flag => Some(gen::max_dimacs(cfg.lt).to_string()),
                    (_, "group") | (_, "clause_count") if cfg.flag && kind != 4 => {
                        if t.what == "group" { Some(u64::MAX.to_string()) } else { t.limit.clone() }
                    }
                    (_, "value") => Some(gen::max_dimacs(cfg.lt).to_string()),
                    (l, _) => l.clone(),
                };
                let Some(limit) = limit else { continue };
                let mut new = if kind == 4 {
                    // far beyond any machine integer
                    let k = 25 + rng.usize(40);
                    let mut s = String::from("9");
                    for _ in 0..k {
                        s.push((b'0' + rng.below(10) as u8) as char);
                    }
                    s
                } else {
                    inc_dec(&limit)
                };
                let signed = (pk.is_dimacs() && t.what == "lit") || (pk == PK::Log && t.what == "value");
                if signed && rng.chance(1, 2) {
                    new.insert(0, '-');
                }
                if t.what == "latch_init" {
                    continue; // its own rule (0, 1 or the latch itself), ambiguous with the literal limit
                }
                return mk(new.clone().into_bytes(), format!("{} '{}' -> '{}' (limit {})", t.what, String::from_utf8_lossy(text), new, limit));
            }
            // leading zero in a strict-number format
            (Role::Num, 5) if pk.is_aiger() || pk == PK::Btor2 => {
                if t.what == "latch_init" || text == b"0" && pk == PK::Btor2 && matches!(t.what, "id" | "sortid" | "arg" | "width" | "count") {
                    continue;
                }
                let mut new = b"0".to_vec();
                new.extend_from_slice(text);
                if pk == PK::Btor2 && matches!(t.what, "id" | "sortid" | "arg" | "width" | "count") {
                    // a leading '0' makes positive_int fall through: error at the token start
                }
                return mk(new, format!("leading zero added to {} '{}'", t.what, String::from_utf8_lossy(text)));
            }
            // odd / zero defining literal
            (Role::Num, 6) if matches!(t.what, "input" | "latch_state" | "and_out") => {
                let v: u128 = String::from_utf8_lossy(text).parse().ok()?;
                let new = if rng.chance(1, 2) { "0".to_string() } else { (v | 1).to_string() };
                if t.what == "latch_state" {
                    // the latch's own init literal would no longer match: still the first error is here
                }
                return mk(new.clone().into_bytes(), format!("defining literal {} '{}' -> '{}'", t.what, String::from_utf8_lossy(text), new));
            }
            // separator replaced
            (Role::Sep, _) => {
                let next_is_free_text = doc.toks.get(ti + 1).map_or(false, |nx| {
                    matches!(nx.role, Role::Name | Role::Comment) && nx.what != "constdigits"
                });
                // a tab directly after a BTOR2 symbol would simply extend the symbol (ambiguous position)
                let prev_is_symbol = ti > 0 && doc.toks[ti - 1].what == "symbol";
                let new: &[u8] = if prev_is_symbol {
                    b"  "
                } else if rng.chance(1, 2) || next_is_free_text {
                    b"\t"
                } else {
                    b"  "
                };
                if next_is_free_text && pk == PK::Btor2 {
                    // "<TAB>symbol": the tab is where a space, a newline or nothing is expected: fine
                }
                return mk(new.to_vec(), format!("separator replaced by {:?}", String::from_utf8_lossy(new)));
            }
            // unknown keyword
            (Role::Keyword, _) if pk == PK::Btor2 && (t.what == "kw" || t.what == "sortkw") => {
                let mut new = text.to_vec();
                match rng.below(3) {
                    0 => new.push(b'x'),
                    1 => new = b"zzz".to_vec(),
                    _ => {
                        new.pop();
                        if new.is_empty() || is_btor_keyword(&new) {
                            new = b"qq".to_vec();
                        }
                    }
                }
                if is_btor_keyword(&new) {
                    continue;
                }
                return mk(new.clone(), format!("keyword '{}' -> '{}'", String::from_utf8_lossy(text), String::from_utf8_lossy(&new)));
            }
            // invalid UTF-8 byte inside an AIGER symbol name: the token is the invalid byte
            (Role::Name, _) if pk.is_aiger() && t.what == "symname" => {
                // insert at a character boundary
                let s = std::str::from_utf8(text).ok()?;
                let bounds: Vec<usize> = s.char_indices().map(|(i, _)| i).chain(std::iter::once(s.len())).collect();
                let at = bounds[rng.usize(bounds.len())];
                let mut new = text.to_vec();
                new.insert(at, 0xff);
                return Some(Corruption {
                    bytes: splice(doc, t, &new),
                    line: t.line,
                    col_lo: t.col + at,
                    col_hi: t.col + at,
                    what: format!("invalid UTF-8 byte inserted into symbol name at name offset {}", at),
                });
            }
            // AIGER comment section: invalid UTF-8 byte on any of its lines, or missing final newline
            (Role::Comment, _) if pk.is_aiger() && t.what == "comment" => {
                let c = std::str::from_utf8(text).ok()?;
                if rng.chance(1, 2) {
                    let bounds: Vec<usize> = c.char_indices().map(|(i, _)| i).chain(std::iter::once(c.len())).collect();
                    let at = bounds[rng.usize(bounds.len())];
                    let mut new = text.to_vec();
                    new.insert(at, 0xff);
                    let nl = text[..at].iter().filter(|&&b| b == b'\n').count();
                    let line_start = text[..at].iter().rposition(|&b| b == b'\n').map_or(0, |p| p + 1);
                    return Some(Corruption {
                        bytes: splice(doc, t, &new),
                        line: t.line + nl,
                        col_lo: at - line_start + 1,
                        col_hi: at - line_start + 1,
                        what: format!("invalid UTF-8 byte inserted into the comment section at comment offset {} (comment line {})", at, nl + 1),
                    });
                } else {
                    // drop the final newline of the file (the comment must then be non-empty and not end in a newline)
                    if text.is_empty() || text.last() == Some(&b'\n') || t.off + t.len + 1 != doc.bytes.len() {
                        continue;
                    }
                    let nl = text.iter().filter(|&&b| b == b'\n').count();
                    let line_start = text.iter().rposition(|&b| b == b'\n').map_or(0, |p| p + 1);
                    let col = text.len() - line_start + 1;
                    return Some(Corruption {
                        bytes: doc.bytes[..doc.bytes.len() - 1].to_vec(),
                        line: t.line + nl,
                        col_lo: col,
                        col_hi: col,
                        what: format!("final newline of the comment section removed (comment has {} lines)", nl + 1),
                    });
                }
            }
            // binary delta larger than its reference
            (Role::Binary, _) if t.what == "delta0" => {
                                // 2^64-1 in ten 7-bit groups: larger than every possible gate code
                let new = vec![0xff, 0xff, 0xff, 0xff, 0xff, 0xff, 0xff, 0xff, 0xff, 0x01];
                return mk(new, "delta0 replaced by 2^64-1 (larger than any gate code)".into());
            }
            _ => continue,
        }
    }
    None
}

fn is_btor_keyword(k: &[u8]) -> bool {
    let s = String::from_utf8_lossy(k);
    let s = s.as_ref();
    gen::BINARY_OPS.contains(&s)
        || gen::UNARY_PLAIN.contains(&s)
        || gen::TERNARY_OPS.contains(&s)
        || [
            "sort", "init", "next", "bad", "constraint", "fair", "output", "justice", "const", "constd", "consth", "ones", "one",
            "zero", "input", "state", "uext", "sext", "slice", "bitvec", "array",
        ]
        .contains(&s)
}

impl Monitor for C08 {
    fn case(&mut self, idx: u64, rng: &mut Rng, rep: &mut Report) {
        let pk = drive::ALL_PK[(idx % 7) as usize];
        let mut cfg = drive::random_cfg(rng, pk);
        if self.mode == "range" {
            cfg = drive::random_cfg_skip(rng, pk);
            let size = if rng.chance(1, 40) { 200 } else { 10 };
            let input = corpus::draw(rng, cfg, size);
            let bytes = &input.bytes;
            let data = Rc::new(bytes.clone());
            rep.inc("inputs");
            let mut table: Option<Vec<(usize, usize)>> = None;
            for (policy, ctor) in schedules(rng, bytes.len()) {
                let tr = sut(|| drive::run_collect(cfg, ctor, Src::new(data.clone(), policy.clone(), idx)));
                let Outcome::Syntax { line, col, msg } = &tr.outcome else { continue };
                rep.inc("located_errors");
                rep.inc(&format!("parser:{}", pk.name()));
                let t = table.get_or_insert_with(|| line_table(cfg, bytes));
                // "between 1 and the number of lines plus one": when the data does not end with a
                // newline its last piece is a line, and one more (non-existent, length 0) line is in range
                let extra = if t.last().map_or(false, |l| l.1 > 0) { 1 } else { 0 };
                let ok = *line >= 1
                    && *line <= t.len() + extra
                    && *col >= 1
                    && *col <= t.get(*line - 1).map_or(0, |l| l.1) + 1;
                if *line > 1 {
                    rep.inc("errors_beyond_line_1");
                    rep.nontrivial(H::new().b(bytes).u(cfg.code()).u(*line as u64).u(*col as u64).get());
                }
                if !ok {
                    rep.violation(
                        &format!("{}:range", pk.name()),
                        J::obj()
                            .set("parser", J::s(cfg.describe()))
                            .set("input", J::bytes(bytes))
                            .set("schedule", J::s(policy.describe()))
                            .set("ctor", J::s(ctor.describe()))
                            .set("reported", J::s(format!("{}:{} {}", line, col, msg)))
                            .set("lines_in_input", J::u(t.len()))
                            .set(
                                "length_of_reported_line",
                                if *line >= 1 && *line <= t.len() {
                                    J::u(t[*line - 1].1)
                                } else {
                                    J::Null
                                },
                            ),
                    );
                    return;
                }
                if rep.want_sample() && *line > 2 {
                    rep.sample(|| {
                        J::obj()
                            .set("parser", J::s(cfg.describe()))
                            .set("input", J::bytes(&bytes[..bytes.len().min(200)]))
                            .set("reported", J::s(format!("{}:{} {}", line, col, msg)))
                            .set("lines_in_input", J::u(t.len()))
                    });
                }
            }
            return;
        }
        // exact mode
        let size = match rng.below(10) {
            0 => 120,
            1..=3 => 30,
            _ => 8,
        };
        let density = if pk.is_dimacs() || pk == PK::Log {
            *rng.pick(&[0u64, 15, 40])
        } else {
            0
        };
        let doc = crate::c07::gen_doc(rng, cfg, size, density);
        let Some(c) = corrupt(rng, cfg, &doc) else {
            rep.inc("no_applicable_corruption");
            return;
        };
        rep.inc("corrupted_documents");
        rep.inc(&format!("parser:{}", pk.name()));
        let kind_key = c.what.split(|ch: char| ch == '\'' || ch.is_ascii_digit()).next().unwrap_or("").trim().to_string();
        rep.inc(&format!("catalogue:{}", kind_key));
        let data = Rc::new(c.bytes.clone());
        for (policy, ctor) in schedules(rng, c.bytes.len()) {
            let tr = sut(|| drive::run_collect(cfg, ctor, Src::new(data.clone(), policy.clone(), idx)));
            rep.inc("parses");
            match &tr.outcome {
                Outcome::Syntax { line, col, msg } => {
                    let ok = *line == c.line && *col >= c.col_lo && *col <= c.col_hi;
                    if !ok {
                        rep.violation(
                            &format!("{}:exact", pk.name()),
                            J::obj()
                                .set("parser", J::s(cfg.describe()))
                                .set("input", J::bytes(&c.bytes))
                                .set("corruption", J::s(c.what.clone()))
                                .set("schedule", J::s(policy.describe()))
                                .set("ctor", J::s(ctor.describe()))
                                .set("reported", J::s(format!("{}:{} {}", line, col, msg)))
                                .set("expected_line", J::u(c.line))
                                .set("expected_columns", J::s(format!("{}..={}", c.col_lo, c.col_hi))),
                        );
                        return;
                    }
                    if c.line > 1 {
                        rep.nontrivial(H::new().b(&c.bytes).u(cfg.code()).get());
                    }
                    if rep.want_sample() && c.line > 2 {
                        rep.sample(|| {
                            J::obj()
                                .set("parser", J::s(cfg.describe()))
                                .set("input", J::bytes(&c.bytes[..c.bytes.len().min(240)]))
                                .set("corruption", J::s(c.what.clone()))
                                .set("reported", J::s(format!("{}:{} {}", line, col, msg)))
                                .set("expected", J::s(format!("line {} columns {}..={}", c.line, c.col_lo, c.col_hi)))
                        });
                    }
                }
                other => {
                    // the corrupted document was not rejected: the catalogue entry did not apply as
                    // intended (e.g. the limit was not active); counted, not judged here (C06 judges limits)
                    rep.inc("corruption_not_rejected");
                    if rep.counters.get("corruption_not_rejected").copied().unwrap_or(0) <= 3 {
                        rep.extra.insert(
                            format!("not_rejected_{}", rep.cur),
                            J::obj()
                                .set("parser", J::s(cfg.describe()))
                                .set("corruption", J::s(c.what.clone()))
                                .set("input", J::bytes(&c.bytes[..c.bytes.len().min(300)]))
                                .set("outcome", J::s(other.describe())),
                        );
                    }
                    break;
                }
            }
        }
    }
}
