//! C09 - items are delivered without reading past the line that completes them.
//!
//! A line-by-line source (one line - or one binary and-gate - per read()) feeds a streaming parser;
//! the number of bytes the source has handed out is sampled at the moment each item is returned.
//! Oracle 1 (generated documents, token map known): delivered_at_return(item i) <= end offset of the
//! line completing item i. Oracle 2 (any input, no token map): if item i was returned when the
//! source had delivered up to cut c, then parsing only the data before the previous cut, followed by
//! end of input, must not already yield an identical item i - otherwise the last line was read ahead
//! without being needed.

use crate::corpus::{self, Class};
use crate::drive::{self, Ctor, PCfg, PK};
use crate::json::J;
use crate::prng::{Rng, H};
use crate::src::{Policy, Src};
use crate::work::{sut, Monitor, Report};
use std::rc::Rc;

pub struct C09 {}

const STREAMING: [PK; 6] = [PK::Cnf, PK::Wcnf, PK::Gcnf, PK::Aag, PK::Aig, PK::Btor2];

impl Monitor for C09 {
    fn case(&mut self, idx: u64, rng: &mut Rng, rep: &mut Report) {
        let pk = STREAMING[(idx % 6) as usize];
        let mut cfg: PCfg = drive::random_cfg(rng, pk);
        cfg.sections = true;
        let size = if rng.chance(1, 30) { 120 } else { 10 };
        let mut input = corpus::draw(rng, cfg, size);
        // mostly well-formed documents (the property is stated for them); others get oracle 2 only
        if input.class != Class::Generated && rng.chance(2, 3) {
            let density = *rng.pick(&[0u64, 20, 40, 60]);
            let doc = crate::c07::gen_doc(rng, cfg, size, density);
            input = corpus::Input {
                bytes: doc.bytes.clone(),
                class: Class::Generated,
                doc: Some(doc),
            };
        }
        let bytes = &input.bytes;
        let len = bytes.len();
        let data = Rc::new(bytes.clone());
        let cuts: Vec<usize> = match &input.doc {
            Some(d) => d.cuts.clone(),
            None => {
                let mut c: Vec<usize> = bytes
                    .iter()
                    .enumerate()
                    .filter(|(_, &b)| b == b'\n')
                    .map(|(i, _)| i + 1)
                    .collect();
                if c.last() != Some(&len) && len > 0 {
                    c.push(len);
                }
                c
            }
        };
        let cuts = Rc::new(cuts);
        let chunk = *rng.pick(&[16usize, 64, 16384, 16384]);
        rep.inc("documents");
        rep.inc(&format!("class:{}", input.class.name()));
        rep.inc(&format!("parser:{}", pk.name()));
        if cuts.windows(2).any(|w| w[1] - w[0] > chunk) {
            rep.inc("docs_with_line_longer_than_chunk");
        }
        // one of the public constructors; from_buf_reader gets a BufReader that already holds the first
        // line (only for non-empty input: an empty one would make the BufReader itself see the end)
        let ctor = match rng.below(8) {
            0 => Ctor::FromRead,
            1 => Ctor::FromBoxed,
            2 | 3 if len > 0 => Ctor::FromBufReader(*rng.pick(&[64usize, 4096, 16384, 40000])),
            4 => Ctor::AfterPreamble(1 + rng.usize(40), chunk),
            _ => Ctor::Chunk(chunk),
        };
        rep.inc(match ctor {
            Ctor::Chunk(_) => "ctor:new",
            Ctor::FromRead => "ctor:from_read",
            Ctor::FromBoxed => "ctor:from_boxed_dyn_read",
            Ctor::FromBufReader(_) => "ctor:from_buf_reader_holding_first_line",
            Ctor::AfterPreamble(..) => "ctor:new_on_advanced_reader",
            Ctor::Prefetched(_) => "ctor:new_on_reader_that_looked_ahead_to_the_end",
        });
        let src = Src::new(data.clone(), Policy::Cuts(cuts.clone()), 0);
        let mut at_return: Vec<usize> = vec![];
        let mut items: Vec<String> = vec![];
        let outcome = sut(|| {
            drive::run(cfg, ctor, src.clone(), &mut |s: &str| {
                at_return.push(src.delivered());
                items.push(s.to_string());
            })
        });
        rep.count("items_observed", items.len() as u64);
        let mut problems: Vec<String> = vec![];
        // oracle 1
        if let Some(doc) = &input.doc {
            if outcome != drive::Outcome::End || items != doc.items {
                // not C09's business (C07 / C06 judge that); the delivery check needs matching items
                rep.inc("generated_doc_not_parsed_as_rendered");
            } else {
                for (i, &d) in at_return.iter().enumerate() {
                    rep.inc("oracle1_checks");
                    if d > doc.item_ends[i] {
                        problems.push(format!(
                            "item {} ({}) was returned only after {} bytes had been delivered, but the line completing it ends at offset {} ({} bytes read ahead)",
                            i,
                            items[i],
                            d,
                            doc.item_ends[i],
                            d - doc.item_ends[i]
                        ));
                        break;
                    }
                }
            }
        }
        // oracle 2: sample up to 6 items
        if problems.is_empty() && !items.is_empty() {
            let n = items.len();
            let picks: Vec<usize> = if n <= 6 {
                (0..n).collect()
            } else {
                (0..6).map(|_| rng.usize(n)).collect()
            };
            for i in picks {
                let d = at_return[i];
                // the AIGER comment is "the rest of the file", not a streamed section entry: it
                // legitimately needs the end of input (and an empty comment looks the same with or
                // without its final newline)
                if pk.is_aiger() && items[i].starts_with("COMMENT") {
                    continue;
                }
                // previous cut strictly below d
                let prev = cuts.iter().rev().find(|&&c| c < d).copied().unwrap_or(0);
                if d == 0 {
                    continue;
                }
                let tsrc = Src::new(data.clone(), Policy::Cuts(cuts.clone()), 0).truncated_at(prev);
                let mut titems: Vec<String> = vec![];
                let _ = sut(|| {
                    drive::run(cfg, ctor, tsrc.clone(), &mut |s: &str| {
                        titems.push(s.to_string());
                    })
                });
                rep.inc("oracle2_checks");
                if titems.get(i) == Some(&items[i]) && titems[..i] == items[..i] {
                    problems.push(format!(
                        "item {} ({}) was returned after {} bytes had been delivered, but the first {} bytes followed by end of input already yield the identical item: the line(s) up to offset {} were read ahead without being needed",
                        i, items[i], d, prev, d
                    ));
                    break;
                }
            }
        }
        // the same document from a source that fails at a line end or somewhere inside a line: after the
        // parser has returned the I/O error and is asked once more (drive does that), the source must not
        // have been called again
        if problems.is_empty() && rng.chance(1, 3) {
            let k = if rng.chance(1, 2) && !cuts.is_empty() { *rng.pick(&cuts) } else { rng.usize(len + 1) };
            let fctor = match ctor {
                Ctor::FromBufReader(_) => Ctor::Chunk(chunk),
                c => c,
            };
            let fsrc = Src::new(data.clone(), Policy::Cuts(cuts.clone()), rng.next()).failing_at(k);
            let out = sut(|| drive::run(cfg, fctor, fsrc.clone(), &mut |_s: &str| {}));
            let flog = fsrc.log();
            rep.inc("runs_with_a_failing_source");
            if matches!(out, drive::Outcome::Io(_)) {
                rep.inc("io_errors_returned_then_asked_again");
            }
            if flog.calls_after_end > 0 {
                problems.push(format!(
                    "failing source (fails after {} bytes, {}): called {} time(s) again after it had returned its error; final outcome {}",
                    k,
                    fctor.describe(),
                    flog.calls_after_end,
                    out.describe()
                ));
            }
        }
        let log = src.log();
        rep.count("read_calls", log.calls);
        if log.calls_after_end > 0 {
            problems.push(format!(
                "the source was called {} time(s) after it had reported end of input",
                log.calls_after_end
            ));
        }
        if items.len() >= 2 && cuts.len() >= 3 {
            rep.inc("nontrivial_documents");
            rep.nontrivial(H::new().b(bytes).u(cfg.code()).u(chunk as u64).b(ctor.describe().as_bytes()).get());
            if rep.want_sample() && input.class == Class::Generated && len < 400 {
                rep.sample(|| {
                    J::obj()
                        .set("parser", J::s(cfg.describe()))
                        .set("input", J::bytes(bytes))
                        .set("chunk", J::u(chunk))
                        .set("lines_or_gates", J::u(cuts.len()))
                        .set(
                            "delivered_at_item_return",
                            J::A(at_return.iter().take(12).map(|&d| J::u(d)).collect()),
                        )
                        .set(
                            "item_line_end",
                            match &input.doc {
                                Some(d) => J::A(d.item_ends.iter().take(12).map(|&d| J::u(d)).collect()),
                                None => J::Null,
                            },
                        )
                });
            }
        }
        if !problems.is_empty() {
            rep.violation(
                &format!("{}:readahead", pk.name()),
                J::obj()
                    .set("parser", J::s(cfg.describe()))
                    .set("input", J::bytes(bytes))
                    .set("input_class", J::s(input.class.name()))
                    .set("chunk", J::u(chunk))
                    .set("constructor", J::s(ctor.describe()))
                    .set("cuts", J::A(cuts.iter().take(40).map(|&c| J::u(c)).collect()))
                    .set("problems", J::A(problems.into_iter().map(J::s).collect())),
            );
        }
    }
}
