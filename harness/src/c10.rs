//! C10 - streaming uses memory bounded by chunk size and largest item, not input size.
//!
//! A parser streams through N bytes produced on the fly (nothing is materialised; items are dropped
//! as soon as they are returned). The counting allocator's peak live heap during the run must stay
//! below 8*chunk + 4*max_item + 16 KiB, for N at least 100x that bound. The bound is about twice what
//! was measured on the pinned tree and does not depend on N.

use crate::alloc::Window;
use crate::json::J;
use crate::prng::{Rng, H};
use crate::src::GenSrc;
use crate::work::{sut, Monitor, Report};
use flussab::text::LineReader;
use flussab::DeferredReader;
use std::cell::Cell;
use std::rc::Rc;

#[derive(Clone, Copy, Debug, PartialEq, Eq)]
pub enum Fmt {
    Cnf,
    Wcnf,
    Gcnf,
    Btor2,
    Aag,
    Aig,
}

const FMTS: [Fmt; 6] = [Fmt::Cnf, Fmt::Wcnf, Fmt::Gcnf, Fmt::Btor2, Fmt::Aag, Fmt::Aig];

struct StreamGen {
    fmt: Fmt,
    target: u64,
    emitted: u64,
    k: u64,
    header_done: bool,
    /// emit one big comment line of this many bytes after ~64 KiB
    big: u64,
    big_left: u64,
    big_done: bool,
    gates: u64,
    inputs: u64,
    /// AIGER: item counts per section [inputs, latches, outputs, bad, constraints, justice, fairness, gates, symbols]
    sect: [u64; 9],
    phase: usize,
    /// BTOR2 line mix: 0 mixed, 1 symbol+comment on every line, 2 comment lines + symbol-only nodes
    btor_profile: u8,
    /// DIMACS stream shape: 0 clauses only (clause count unspecified); 1 declared clause count, all
    /// clauses, then a long tail of comment / blank lines; 2 a long prelude of comment / blank lines
    /// in front of the header; 3 clauses split over lines around comments, and blocks of thousands of
    /// comment / blank lines between clauses and, every other time, inside a clause that is left open
    dimacs_profile: u8,
    /// profile 1: the declared number of clauses
    n_declared: u64,
    filler_left: u64,
    filler_no: u64,
    tail_pending: bool,
    max_item: Rc<Cell<u64>>,
}

impl StreamGen {
    /// one comment or blank line (never an item)
    fn filler(&mut self, out: &mut Vec<u8>) {
        use std::io::Write;
        self.filler_no += 1;
        let _ = match self.filler_no % 5 {
            0 => writeln!(out),
            1 => writeln!(out, "c"),
            2 => writeln!(out, "c filler line {} of a tool that talks a lot", self.filler_no),
            3 => writeln!(out, "c 1 2 3 0"),
            _ => writeln!(out, "c {}", self.filler_no),
        };
    }

    fn line(&mut self, out: &mut Vec<u8>) {
        use std::io::Write;
        let start = out.len();
        let k = self.k;
        self.k += 1;
        match self.fmt {
            Fmt::Cnf if self.dimacs_profile == 3 && k % 3 == 0 => {
                let _ = writeln!(out, "{} -{}\nc inside {}\n\n {} 0", 1 + k % 97, 1 + (k * 7) % 1013, k, 1 + (k * 13) % 65521);
            }
            Fmt::Wcnf if self.dimacs_profile == 3 && k % 3 == 0 => {
                let _ = writeln!(out, "{}\nc inside {}\n{} -{}\n0", 1 + k % 9, k, 1 + k % 97, 1 + (k * 7) % 1013);
            }
            Fmt::Gcnf if self.dimacs_profile == 3 && k % 3 == 0 => {
                let _ = writeln!(out, "{{{}}}\nc inside {}\n{} -{}\n\n0", k % 5, k, 1 + k % 97, 1 + (k * 7) % 1013);
            }
            Fmt::Cnf => {
                let _ = writeln!(out, "{} -{} {} 0", 1 + k % 97, 1 + (k * 7) % 1013, 1 + (k * 13) % 65521);
            }
            Fmt::Wcnf => {
                let _ = writeln!(out, "{} {} -{} 0", 1 + k % 9, 1 + k % 97, 1 + (k * 7) % 1013);
            }
            Fmt::Gcnf => {
                let _ = writeln!(out, "{{{}}} {} -{} 0", k % 5, 1 + k % 97, 1 + (k * 7) % 1013);
            }
            Fmt::Btor2 if self.btor_profile == 1 => {
                // every node line has a symbol AND a comment
                let _ = match k % 3 {
                    0 => writeln!(out, "{} input 1 sym{} ; c{}", k + 2, k, k),
                    1 => writeln!(out, "{} constd 1 -{} d{} ;x", k + 2, k % 1000, k),
                    _ => writeln!(out, "{} justice 2 {} {} j{} ; two", k + 2, k + 1, k + 1, k),
                };
            }
            Fmt::Btor2 if self.btor_profile == 2 => {
                // comment-only lines between nodes with symbols only
                let _ = match k % 2 {
                    0 => writeln!(out, "; comment {}", k),
                    _ => writeln!(out, "{} consth 1 ff{} name{}", k + 2, k % 10, k),
                };
            }
            Fmt::Btor2 => {
                let _ = match k % 4 {
                    0 => writeln!(out, "{} add 1 {} {}", k + 2, 1 + k / 2, 1 + k / 3),
                    1 => writeln!(out, "{} const 1 0101 name{}", k + 2, k),
                    2 => writeln!(out, "{} justice 3 {} {} {} ; c", k + 2, k + 1, k + 1, k + 1),
                    _ => writeln!(out, "{} sort bitvec {}", k + 2, 1 + k % 64),
                };
            }
            Fmt::Aag | Fmt::Aig => {
                let ascii = self.fmt == Fmt::Aag;
                let (ni, nl) = (self.sect[0], self.sect[1]);
                // phases: 0 inputs, 1 latches, 2 outputs, 3 bad, 4 constraints, 5 justice sizes,
                // 6 justice literals, 7 fairness, 8 gates, 9 symbols
                let _ = match self.phase {
                    0 => writeln!(out, "{}", 2 * (k + 1)),
                    1 => {
                        if ascii {
                            writeln!(out, "{} {}", 2 * (ni + k + 1), k % 2)
                        } else {
                            writeln!(out, "{}", k % 2)
                        }
                    }
                    2 | 3 | 4 | 6 | 7 => writeln!(out, "{}", k % 2),
                    5 => writeln!(out, "1"),
                    8 => {
                        let out_code = 2 * (ni + nl + 1 + k);
                        if ascii {
                            writeln!(out, "{} {} {}", out_code, out_code - 2, k % 2)
                        } else {
                            out.push(0x02);
                            out.push((k % 2) as u8);
                            Ok(())
                        }
                    }
                    _ => writeln!(out, "i{} name{}", k % ni.max(1), k),
                };
            }
        }
        let n = (out.len() - start) as u64;
        if n > self.max_item.get() {
            self.max_item.set(n);
        }
    }
    fn fill(&mut self, out: &mut Vec<u8>) -> bool {
        use std::io::Write;
        let cap = 4096;
        let dimacs = matches!(self.fmt, Fmt::Cnf | Fmt::Wcnf | Fmt::Gcnf);
        if dimacs && !self.header_done && self.dimacs_profile == 2 && self.emitted < self.target / 2 {
            // prelude of comment / blank lines in front of the header
            while out.len() + 64 < cap {
                self.filler(out);
            }
            self.emitted += out.len() as u64;
            return true;
        }
        if !self.header_done {
            self.header_done = true;
            let n = if self.dimacs_profile == 1 { self.n_declared } else { 0 };
            match self.fmt {
                Fmt::Cnf => {
                    let _ = write!(out, "c generated\np cnf 65521 {}\n", n);
                }
                Fmt::Wcnf => {
                    let _ = write!(out, "p wcnf 1013 {} 10\n", n);
                }
                Fmt::Gcnf => {
                    let _ = write!(out, "p gcnf 1013 {} 4\n", n);
                }
                Fmt::Btor2 => out.extend_from_slice(b"1 sort bitvec 8\n"),
                Fmt::Aag | Fmt::Aig => {
                    let c = self.sect;
                    let _ = writeln!(
                        out,
                        "{} {} {} {} {} {} {} {} {} {}",
                        if self.fmt == Fmt::Aag { "aag" } else { "aig" },
                        c[0] + c[1] + c[7],
                        c[0],
                        c[1],
                        c[2],
                        c[7],
                        c[3],
                        c[4],
                        c[5],
                        c[6]
                    );
                    self.phase = if self.fmt == Fmt::Aag { 0 } else { 1 };
                }
            }
        }
        if self.big_left > 0 {
            let n = self.big_left.min(cap as u64 - out.len().min(cap) as u64).max(1);
            out.extend(std::iter::repeat(b'x').take(n as usize));
            self.big_left -= n;
            if self.big_left == 0 {
                out.push(b'\n');
            }
            self.emitted += n;
            return true;
        }
        let item_based = matches!(self.fmt, Fmt::Aag | Fmt::Aig);
        while out.len() + 64 < cap {
            if item_based {
                // counts per phase: justice has two phases (sizes, literals) of sect[5] items each
                let counts = [
                    self.sect[0], self.sect[1], self.sect[2], self.sect[3], self.sect[4], self.sect[5], self.sect[5],
                    self.sect[6], self.sect[7], self.sect[8],
                ];
                while self.phase < 10 && self.k >= counts[self.phase] {
                    self.phase += 1;
                    self.k = 0;
                }
                if self.phase >= 10 {
                    self.emitted += out.len() as u64;
                    return false;
                }
            } else if self.emitted + out.len() as u64 >= self.target
                && !(dimacs && self.dimacs_profile == 1 && self.k < self.n_declared)
                && !(dimacs && self.dimacs_profile == 3 && (self.tail_pending || self.filler_left > 0))
            {
                self.emitted += out.len() as u64;
                return false;
            }
            if dimacs && self.dimacs_profile == 1 && self.k >= self.n_declared {
                // all declared clauses are out: comment / blank lines up to the end of the stream
                self.filler(out);
                continue;
            }
            if dimacs && self.dimacs_profile == 3 {
                if self.filler_left > 0 {
                    self.filler_left -= 1;
                    self.filler(out);
                    continue;
                }
                if self.tail_pending {
                    // the clause that was left open in front of the block of comment / blank lines
                    self.tail_pending = false;
                    out.extend_from_slice(b"  -3 0\n");
                    continue;
                }
                if self.k % 1000 == 999 {
                    self.filler_left = 3000;
                    if (self.k / 1000) % 2 == 1 {
                        // every other block stands INSIDE a clause: the clause's line ends without the
                        // terminating 0, the clause goes on behind the block
                        out.extend_from_slice(match self.fmt {
                            Fmt::Wcnf => b"5 1 2 \n",
                            Fmt::Gcnf => b"{1} 1 2\n",
                            _ => b"1 2\n",
                        });
                        self.k += 1;
                        self.tail_pending = true;
                        continue;
                    }
                }
            }
            if self.big > 0 && !self.big_done && !item_based && self.emitted + out.len() as u64 > 65536 {
                self.big_done = true;
                self.big_left = self.big;
                out.extend_from_slice(if self.fmt == Fmt::Btor2 { b"; " } else { b"c " });
                if self.big + 3 > self.max_item.get() {
                    self.max_item.set(self.big + 3);
                }
                break;
            }
            self.line(out);
        }
        self.emitted += out.len() as u64;
        true
    }
}

pub struct C10 {
    pub mib: u64,
    /// solver-log streams instead of the six streaming formats
    pub log: bool,
    /// record consumers working directly on a DeferredReader instead of parsers
    pub raw: bool,
}

impl C10 {
    /// A consumer that reads records from a bare DeferredReader through ONE family of look-ahead calls
    /// (the parsers only ever use request_byte / request_byte_at_offset): 4 styles x 4 chunk sizes x
    /// 3 read sizes (1 byte, a full chunk, exactly one record per read); two more styles keep a steady look-ahead
    /// of more than three chunks.
    fn case_raw(&mut self, idx: u64, _rng: &mut Rng, rep: &mut Report) {
        let style = idx % 7;
        let chunk = [64usize, 4096, 16384, 65536][((idx / 7) % 4) as usize];
        let read_mode = (idx / 28) % 3;
        // styles 4 and 5 keep a steady look-ahead of more than three chunks in front of the cursor
        let window = 3 * chunk + 16;
        let target = self.mib << 20;
        // styles 0..2: fixed 16-byte records; style 3: length-prefixed records of 1..=200 bytes
        let mut emitted = 0u64;
        let mut k = 0u64;
        let one_per_read = read_mode == 2;
        let refill = move |out: &mut Vec<u8>| -> bool {
            loop {
                if emitted >= target {
                    return false;
                }
                k += 1;
                if style == 3 {
                    let len = 1 + (k * 7919 % 200) as usize;
                    out.push(len as u8);
                    out.extend(std::iter::repeat(b'a' + (k % 26) as u8).take(len));
                    emitted += 1 + len as u64;
                } else {
                    out.extend_from_slice(format!("R{:014}\n", k).as_bytes());
                    emitted += 16;
                }
                if one_per_read || out.len() + 256 >= 4096 {
                    return true;
                }
            }
        };
        let read_size = match read_mode {
            0 => 1,
            1 => chunk,
            _ => usize::MAX, // one record per refill of the source's staging buffer = per read
        };
        let calls = Rc::new(Cell::new(0u64));
        let src = GenSrc {
            refill,
            pending: Vec::with_capacity(8192),
            pos: 0,
            read_size,
            delivered: 0,
            done: false,
            calls: calls.clone(),
        };
        let win = Window::open();
        let (records, bad) = sut(|| {
            let mut r = DeferredReader::from_read(src);
            r.set_chunk_size(chunk);
            let mut n = 0u64;
            let mut bad = String::new();
            loop {
                match style {
                    0 => {
                        let b = r.request(16);
                        if b.len() < 16 {
                            if !b.is_empty() {
                                bad = format!("partial record of {} bytes at the end", b.len());
                            }
                            break;
                        }
                        if b[0] != b'R' || b[15] != b'\n' {
                            bad = format!("record {} damaged", n);
                            break;
                        }
                        r.advance(16);
                    }
                    1 => {
                        match r.request_byte_at_offset(15) {
                            None => {
                                if r.buf_len() != 0 {
                                    bad = format!("partial record of {} bytes at the end", r.buf_len());
                                }
                                break;
                            }
                            Some(b'\n') => {}
                            Some(_) => {
                                bad = format!("record {} damaged", n);
                                break;
                            }
                        }
                        r.advance(16);
                    }
                    2 => {
                        while r.buf_len() < 16 {
                            if !r.request_more() {
                                break;
                            }
                        }
                        if r.buf_len() < 16 {
                            if r.buf_len() != 0 {
                                bad = format!("partial record of {} bytes at the end", r.buf_len());
                            }
                            break;
                        }
                        let b = r.advance_with_buf(16);
                        if b[0] != b'R' || b[15] != b'\n' {
                            bad = format!("record {} damaged", n);
                            break;
                        }
                    }
                    6 => {
                        // like style 0, but the consumer sets the chunk size again before every record
                        r.set_chunk_size(chunk);
                        let b = r.request(16);
                        if b.len() < 16 {
                            if !b.is_empty() {
                                bad = format!("partial record of {} bytes at the end", b.len());
                            }
                            break;
                        }
                        if b[0] != b'R' || b[15] != b'\n' {
                            bad = format!("record {} damaged", n);
                            break;
                        }
                        r.advance(16);
                    }
                    4 => {
                        let b = r.request(window);
                        if b.len() < 16 {
                            if !b.is_empty() {
                                bad = format!("partial record of {} bytes at the end", b.len());
                            }
                            break;
                        }
                        if b[0] != b'R' || b[15] != b'\n' {
                            bad = format!("record {} damaged", n);
                            break;
                        }
                        r.advance(16);
                    }
                    5 => {
                        let _ = r.request_byte_at_offset(window - 1);
                        if r.buf_len() < 16 {
                            if r.buf_len() != 0 {
                                bad = format!("partial record of {} bytes at the end", r.buf_len());
                            }
                            break;
                        }
                        let b = r.buf();
                        if b[0] != b'R' || b[15] != b'\n' {
                            bad = format!("record {} damaged", n);
                            break;
                        }
                        r.advance(16);
                    }
                    _ => {
                        let Some(len) = r.request_byte() else { break };
                        let len = len as usize;
                        let b = r.request(1 + len);
                        if b.len() < 1 + len {
                            bad = format!("record {} cut short", n);
                            break;
                        }
                        if b[1] != b[len] {
                            bad = format!("record {} damaged", n);
                            break;
                        }
                        r.advance(1 + len);
                    }
                }
                n += 1;
            }
            (n, bad)
        });
        let peak = win.peak();
        let max_item = match style {
            3 => 201,
            4 | 5 => window,
            _ => 16,
        };
        let bound = 8 * chunk + 4 * max_item + (16 << 10);
        rep.inc("streams");
        rep.inc("raw_streams");
        rep.inc(&format!(
            "raw_style:{}",
            [
                "request+advance",
                "request_byte_at_offset+advance",
                "request_more+advance_with_buf",
                "length_prefixed:request_byte+request+advance",
                "steady_lookahead_of_3_chunks:request+advance",
                "steady_lookahead_of_3_chunks:request_byte_at_offset+advance",
                "set_chunk_size_before_every_record:request+advance",
            ][style as usize]
        ));
        rep.count("items", records);
        rep.count("bytes_streamed", target);
        rep.count("read_calls", calls.get());
        rep.max("peak_live_bytes", peak as u64);
        if !bad.is_empty() {
            // a damaged record is a C02 matter; nothing was measured
            rep.inc("harness_stream_rejected");
            rep.extra.insert(
                format!("stream_rejected_{}", rep.cur),
                J::obj().set("format", J::s("raw records")).set("error", J::s(bad)),
            );
            return;
        }
        if (target as usize) >= 100 * bound {
            rep.inc("streams_100x_bound");
        }
        rep.nontrivial(H::new().u(78).u(style).u(chunk as u64).u(read_mode).u(target).get());
        rep.sample(|| {
            J::obj()
                .set("format", J::s("raw records"))
                .set("style", J::U(style))
                .set("chunk", J::u(chunk))
                .set("read_mode", J::U(read_mode))
                .set("bytes", J::U(target))
                .set("records", J::U(records))
                .set("peak_live_bytes", J::u(peak))
                .set("bound", J::u(bound))
        });
        if peak > bound {
            rep.violation(
                "Raw:peak",
                J::obj()
                    .set("format", J::s("raw records on a bare DeferredReader"))
                    .set("style", J::U(style))
                    .set("chunk", J::u(chunk))
                    .set("read_mode", J::U(read_mode))
                    .set("bytes_streamed", J::U(target))
                    .set("records", J::U(records))
                    .set("peak_live_bytes", J::u(peak))
                    .set("bound_8chunk_4item_16k", J::u(bound)),
            );
        }
    }

    /// A solver log of `mib` MiB whose result (status + a short assignment) is tiny: the bytes are comment
    /// lines, lines to be ignored and blank lines. 3 line mixes x 4 chunk sizes x 4 read sizes.
    fn case_log(&mut self, idx: u64, rng: &mut Rng, rep: &mut Report) {
        use std::io::Write;
        let profile = idx % 3;
        let chunk = [64usize, 4096, 16384, 65536][((idx / 3) % 4) as usize];
        let read_size = match (idx / 12) % 4 {
            0 => 1,
            1 => 7,
            2 => chunk,
            _ => 1 + rng.usize(2 * chunk),
        };
        let target = self.mib << 20;
        let ignore_unknown = profile != 0;
        let mut emitted = 0u64;
        let mut k = 0u64;
        let mut tail_done = false;
        let mut values = 0u64;
        let refill = move |out: &mut Vec<u8>| -> bool {
            if emitted == 0 {
                out.extend_from_slice(b"c solver log\ns SATISFIABLE\n");
            }
            while out.len() + 80 < 4096 {
                if emitted + out.len() as u64 >= target {
                    if !tail_done {
                        tail_done = true;
                        out.extend_from_slice(b"v 7 -8 0\n");
                    }
                    emitted += out.len() as u64;
                    return false;
                }
                k += 1;
                let _ = match (profile, k % 7) {
                    // strict mode: comments only
                    (0, _) => writeln!(out, "c progress {} conflicts {} restarts", k, k / 3),
                    // one long run of lines that are neither comments nor status nor values
                    (1, 0) => writeln!(out),
                    (1, _) => writeln!(out, "progress {} conflicts {} restarts", k, k / 3),
                    // mixed: comments, ignored lines, blank lines and now and then a value line
                    (_, 0) => writeln!(out, "c progress {}", k),
                    (_, 1) => writeln!(out),
                    (_, 2) if k % 70_000 == 2 && values < 40 => {
                        values += 1;
                        writeln!(out, "v {} -{}", 1 + values, 100 + values)
                    }
                    (_, _) => writeln!(out, "[{}] restarts {}", k, k / 3),
                };
            }
            emitted += out.len() as u64;
            true
        };
        let calls = Rc::new(Cell::new(0u64));
        let src = GenSrc {
            refill,
            pending: Vec::with_capacity(8192),
            pos: 0,
            read_size,
            delivered: 0,
            done: false,
            calls: calls.clone(),
        };
        let win = Window::open();
        let (ok, err, nvals) = sut(|| {
            let mut r = DeferredReader::from_read(src);
            r.set_chunk_size(chunk);
            let mut lr = LineReader::new(r);
            let cfg = flussab_cnf::sat_solver_log::Config::default().ignore_unknown_lines(ignore_unknown);
            match flussab_cnf::sat_solver_log::parse_log::<i32>(&mut lr, cfg) {
                Ok(log) => (true, String::new(), log.assignment.len()),
                Err(e) => (false, format!("{}", e), 0),
            }
        });
        let peak = win.peak();
        let max_item = 400usize; // the result: status + at most 83 literals; lines are < 60 bytes
        let bound = 8 * chunk + 4 * max_item + (16 << 10);
        rep.inc("streams");
        rep.inc("log_streams");
        rep.inc(&format!(
            "log_profile:{}",
            ["comment_lines_strict", "run_of_ignored_lines", "mixed_with_value_lines"][profile as usize]
        ));
        rep.count("bytes_streamed", target);
        rep.count("read_calls", calls.get());
        rep.max("peak_live_bytes", peak as u64);
        if !ok {
            rep.inc("harness_stream_rejected");
            rep.extra.insert(
                format!("stream_rejected_{}", rep.cur),
                J::obj().set("format", J::s("solver log")).set("error", J::s(err)),
            );
            return;
        }
        if (target as usize) >= 100 * bound {
            rep.inc("streams_100x_bound");
        }
        rep.nontrivial(H::new().u(77).u(profile).u(chunk as u64).u(read_size as u64).u(target).get());
        rep.sample(|| {
            J::obj()
                .set("format", J::s("solver log"))
                .set("profile", J::U(profile))
                .set("chunk", J::u(chunk))
                .set("read_size", J::u(read_size))
                .set("bytes", J::U(target))
                .set("assignment_literals", J::u(nvals))
                .set("peak_live_bytes", J::u(peak))
                .set("bound", J::u(bound))
        });
        if peak > bound {
            rep.violation(
                "Log:peak",
                J::obj()
                    .set("format", J::s("solver log"))
                    .set("ignore_unknown_lines", J::B(ignore_unknown))
                    .set("profile", J::U(profile))
                    .set("chunk", J::u(chunk))
                    .set("read_size", J::u(read_size))
                    .set("bytes_streamed", J::U(target))
                    .set("assignment_literals", J::u(nvals))
                    .set("peak_live_bytes", J::u(peak))
                    .set("bound_8chunk_4item_16k", J::u(bound)),
            );
        }
    }
}

struct RunStats {
    items: u64,
    peak: usize,
    peak_first_half: usize,
    live_end: usize,
    ok: bool,
    err: String,
}

fn stream<F: FnMut(&mut Vec<u8>) -> bool>(
    fmt: Fmt,
    src: GenSrc<F>,
    chunk: usize,
    expected_items_half: u64,
    // AIGER: how many entries of each section the consumer takes before it moves on to the next section
    take: u64,
) -> RunStats {
    let win = Window::open();
    let mut items = 0u64;
    let mut peak_first = 0usize;
    let mut err = String::new();
    let mut ok = true;
    let mut tick = |items: &mut u64| {
        *items += 1;
        if *items == expected_items_half {
            peak_first = win.peak();
        }
    };
    let mut r = DeferredReader::from_read(src);
    r.set_chunk_size(chunk);
    let lr = LineReader::new(r);
    macro_rules! fail {
        ($e:expr) => {{
            ok = false;
            err = format!("{}", $e);
        }};
    }
    match fmt {
        Fmt::Cnf => {
            use flussab_cnf::cnf::{Config, Parser};
            match Parser::<i32>::new(lr, Config::default()) {
                Ok(mut p) => loop {
                    match p.next_clause() {
                        Ok(Some(_)) => tick(&mut items),
                        Ok(None) => break,
                        Err(e) => {
                            fail!(e);
                            break;
                        }
                    }
                },
                Err(e) => fail!(e),
            }
        }
        Fmt::Wcnf => {
            use flussab_cnf::wcnf::{Config, Parser};
            match Parser::<i32>::new(lr, Config::default()) {
                Ok(mut p) => loop {
                    match p.next_clause() {
                        Ok(Some(_)) => tick(&mut items),
                        Ok(None) => break,
                        Err(e) => {
                            fail!(e);
                            break;
                        }
                    }
                },
                Err(e) => fail!(e),
            }
        }
        Fmt::Gcnf => {
            use flussab_cnf::gcnf::{Config, Parser};
            match Parser::<i32>::new(lr, Config::default()) {
                Ok(mut p) => loop {
                    match p.next_clause() {
                        Ok(Some(_)) => tick(&mut items),
                        Ok(None) => break,
                        Err(e) => {
                            fail!(e);
                            break;
                        }
                    }
                },
                Err(e) => fail!(e),
            }
        }
        Fmt::Btor2 => {
            use flussab_btor2::{Config, Parser};
            match Parser::new(lr, Config::default()) {
                Ok(mut p) => loop {
                    match p.next_line() {
                        Ok(Some(_)) => tick(&mut items),
                        Ok(None) => break,
                        Err(e) => {
                            fail!(e);
                            break;
                        }
                    }
                },
                Err(e) => fail!(e),
            }
        }
        Fmt::Aag => {
            use flussab_aiger::ascii::{Config, Parser};
            let res = (|| -> Result<(), flussab_aiger::ParseError> {
                let p = Parser::<u32>::new(lr, Config::default())?;
                let mut s = p.inputs()?;
                {
                    let mut taken = 0u64;
                    while taken < take && s.next_input()?.is_some() {
                        tick(&mut items);
                        taken += 1;
                    }
                }
                let mut s = s.latches()?;
                {
                    let mut taken = 0u64;
                    while taken < take && s.next_latch()?.is_some() {
                        tick(&mut items);
                        taken += 1;
                    }
                }
                let mut s = s.outputs()?;
                {
                    let mut taken = 0u64;
                    while taken < take && s.next_output()?.is_some() {
                        tick(&mut items);
                        taken += 1;
                    }
                }
                let mut s = s.bad_state_properties()?;
                {
                    let mut taken = 0u64;
                    while taken < take && s.next_bad_state_property()?.is_some() {
                        tick(&mut items);
                        taken += 1;
                    }
                }
                let mut s = s.invariant_constraints()?;
                {
                    let mut taken = 0u64;
                    while taken < take && s.next_invariant_constraint()?.is_some() {
                        tick(&mut items);
                        taken += 1;
                    }
                }
                let mut s = s.justice_properties()?;
                {
                    let mut taken = 0u64;
                    while taken < take && s.next_justice_property_size()?.is_some() {
                        tick(&mut items);
                        taken += 1;
                    }
                }
                let mut s = s.justice_property_local_fairness_constraints()?;
                {
                    let mut taken = 0u64;
                    while taken < take && s.next_justice_property_local_fairness_constraint()?.is_some() {
                        tick(&mut items);
                        taken += 1;
                    }
                }
                let mut s = s.fairness_constraints()?;
                {
                    let mut taken = 0u64;
                    while taken < take && s.next_fairness_constraint()?.is_some() {
                        tick(&mut items);
                        taken += 1;
                    }
                }
                let mut s = s.and_gates()?;
                {
                    let mut taken = 0u64;
                    while taken < take && s.next_and_gate()?.is_some() {
                        tick(&mut items);
                        taken += 1;
                    }
                }
                let mut s = s.symbols()?;
                while s.next_symbol()?.is_some() {
                    tick(&mut items);
                }
                s.comment()?;
                Ok(())
            })();
            if let Err(e) = res {
                fail!(e);
            }
        }
        Fmt::Aig => {
            use flussab_aiger::binary::{Config, Parser};
            let res = (|| -> Result<(), flussab_aiger::ParseError> {
                let p = Parser::<u32>::new(lr, Config::default())?;
                let mut s = p.latches()?;
                {
                    let mut taken = 0u64;
                    while taken < take && s.next_latch()?.is_some() {
                        tick(&mut items);
                        taken += 1;
                    }
                }
                let mut s = s.outputs()?;
                {
                    let mut taken = 0u64;
                    while taken < take && s.next_output()?.is_some() {
                        tick(&mut items);
                        taken += 1;
                    }
                }
                let mut s = s.bad_state_properties()?;
                {
                    let mut taken = 0u64;
                    while taken < take && s.next_bad_state_property()?.is_some() {
                        tick(&mut items);
                        taken += 1;
                    }
                }
                let mut s = s.invariant_constraints()?;
                {
                    let mut taken = 0u64;
                    while taken < take && s.next_invariant_constraint()?.is_some() {
                        tick(&mut items);
                        taken += 1;
                    }
                }
                let mut s = s.justice_properties()?;
                {
                    let mut taken = 0u64;
                    while taken < take && s.next_justice_property_size()?.is_some() {
                        tick(&mut items);
                        taken += 1;
                    }
                }
                let mut s = s.justice_property_local_fairness_constraints()?;
                {
                    let mut taken = 0u64;
                    while taken < take && s.next_justice_property_local_fairness_constraint()?.is_some() {
                        tick(&mut items);
                        taken += 1;
                    }
                }
                let mut s = s.fairness_constraints()?;
                {
                    let mut taken = 0u64;
                    while taken < take && s.next_fairness_constraint()?.is_some() {
                        tick(&mut items);
                        taken += 1;
                    }
                }
                let mut s = s.and_gates()?;
                {
                    let mut taken = 0u64;
                    while taken < take && s.next_and_gate()?.is_some() {
                        tick(&mut items);
                        taken += 1;
                    }
                }
                let mut s = s.symbols()?;
                while s.next_symbol()?.is_some() {
                    tick(&mut items);
                }
                s.comment()?;
                Ok(())
            })();
            if let Err(e) = res {
                fail!(e);
            }
        }
    }
    RunStats {
        items,
        peak: win.peak(),
        peak_first_half: peak_first,
        live_end: win.live(),
        ok,
        err,
    }
}

impl Monitor for C10 {
    fn case(&mut self, idx: u64, rng: &mut Rng, rep: &mut Report) {
        if self.log {
            return self.case_log(idx, rng, rep);
        }
        if self.raw {
            return self.case_raw(idx, rng, rep);
        }
        let fmt = FMTS[(idx % 6) as usize];
        let chunk = [64usize, 4096, 16384, 65536][((idx / 6) % 4) as usize];
        let read_size = match (idx / 24) % 4 {
            0 => 1,
            1 => 7,
            2 => chunk,
            _ => 1 + rng.usize(2 * chunk),
        };
        let item_based = matches!(fmt, Fmt::Aag | Fmt::Aig);
        let big: u64 = if !item_based && (idx / 96) % 2 == 1 { 1 << 20 } else { 0 };
        let max_item = Rc::new(Cell::new(0u64));
        let target = self.mib << 20;
        // AIGER: which section is the long one (all others have 3 entries); cycles with the configuration
        let long_section = ((idx / 6) % 9) as usize;
        let mut sect = [3u64; 9];
        let (gates, inputs) = match fmt {
            Fmt::Aag | Fmt::Aig => {
                let per_item: u64 = match (fmt, long_section) {
                    (Fmt::Aig, 7) => 2,
                    (Fmt::Aig, 0) => 2, // binary has no input lines: make the gate section long instead
                    (_, 7) => 22,
                    (_, 8) => 20,
                    (_, 1) => 14,
                    (_, 5) => 4,
                    _ => 2,
                };
                let n = (target / per_item).min(400_000_000);
                let ls = if fmt == Fmt::Aig && long_section == 0 { 7 } else { long_section };
                sect[ls] = n;
                if ls == 8 {
                    // symbols refer to inputs
                    sect[0] = 1000;
                }
                (sect[7], sect[0])
            }
            _ => (0, 0),
        };
        let dimacs_profile = (((idx / 6) + (idx / 24) + (idx / 96)) % 4) as u8;
        let mut g = StreamGen {
            fmt,
            target,
            emitted: 0,
            k: 0,
            header_done: false,
            big,
            big_left: 0,
            big_done: false,
            gates,
            inputs,
            sect,
            phase: 0,
            btor_profile: ((idx / 6) % 3) as u8,
            dimacs_profile,
            n_declared: target / 2 / 16,
            filler_left: 0,
            filler_no: 0,
            tail_pending: false,
            max_item: max_item.clone(),
        };
        let calls = Rc::new(Cell::new(0u64));
        // the source's own staging buffer is allocated before the measurement window opens
        let src = GenSrc {
            refill: move |out: &mut Vec<u8>| g.fill(out),
            pending: Vec::with_capacity(8192),
            pos: 0,
            read_size,
            delivered: 0,
            done: false,
            calls: calls.clone(),
        };
        let half = match fmt {
            Fmt::Aag | Fmt::Aig => sect.iter().sum::<u64>() / 2,
            Fmt::Btor2 => target / 24 / 2,
            _ => target / 17 / 2,
        };
        // AIGER (no 1 MiB-line profile there): the second half of the grid takes only two entries of every
        // section and lets the section readers pass over the rest
        let take = if item_based && (idx / 96) % 2 == 1 { 2 } else { u64::MAX };
        if item_based {
            rep.inc(if take == 2 { "aiger_consumer:two_entries_per_section" } else { "aiger_consumer:every_entry" });
        }
        let st = sut(|| stream(fmt, src, chunk, half.max(1), take));
        let max_item_b = max_item.get() as usize;
        let bound = 8 * chunk + 4 * max_item_b + (16 << 10);
        rep.inc("streams");
        rep.count("items", st.items);
        rep.count("bytes_streamed", target);
        rep.count("read_calls", calls.get());
        rep.inc(&format!("format:{:?}", fmt));
        if fmt == Fmt::Btor2 {
            rep.inc(&format!("btor_profile:{}", (idx / 6) % 3));
        }
        if matches!(fmt, Fmt::Cnf | Fmt::Wcnf | Fmt::Gcnf) {
            rep.inc(&format!(
                "dimacs_profile:{}",
                ["clauses_only", "declared_count_then_comment_tail", "comment_prelude_before_header", "split_clauses_and_comment_blocks"]
                    [dimacs_profile as usize]
            ));
        }
        if matches!(fmt, Fmt::Aag | Fmt::Aig) {
            rep.inc(&format!(
                "aiger_long_section:{}",
                ["inputs", "latches", "outputs", "bad", "constraints", "justice", "fairness", "gates", "symbols"]
                    [if fmt == Fmt::Aig && long_section == 0 { 7 } else { long_section }]
            ));
        }
        rep.max("peak_live_bytes", st.peak as u64);
        rep.max(&format!("peak_live_bytes:chunk={}:big={}", chunk, big > 0), st.peak as u64);
        if !st.ok {
            // the generated stream must be accepted; otherwise nothing was measured
            rep.inc("harness_stream_rejected");
            rep.extra.insert(
                format!("stream_rejected_{}", rep.cur),
                J::obj().set("format", J::s(format!("{:?}", fmt))).set("error", J::s(st.err.clone())),
            );
            return;
        }
        let enough = (target as usize) >= 100 * bound || big > 0 && (target as usize) >= 4 * bound;
        if enough {
            rep.inc("streams_100x_bound");
        }
        rep.nontrivial(
            H::new()
                .u(fmt as u64)
                .u(chunk as u64)
                .u(read_size as u64)
                .u(big)
                .u(target)
                .get(),
        );
        rep.sample(|| {
            J::obj()
                .set("format", J::s(format!("{:?}", fmt)))
                .set("chunk", J::u(chunk))
                .set("read_size", J::u(read_size))
                .set("bytes", J::U(target))
                .set("items", J::U(st.items))
                .set("largest_item_bytes", J::u(max_item_b))
                .set("peak_live_bytes", J::u(st.peak))
                .set("peak_first_half", J::u(st.peak_first_half))
                .set("live_at_end", J::u(st.live_end))
                .set("bound", J::u(bound))
        });
        if st.peak > bound {
            rep.violation(
                &format!("{:?}:peak", fmt),
                J::obj()
                    .set("format", J::s(format!("{:?}", fmt)))
                    .set("chunk", J::u(chunk))
                    .set("read_size", J::u(read_size))
                    .set("bytes_streamed", J::U(target))
                    .set("items", J::U(st.items))
                    .set("largest_item_bytes", J::u(max_item_b))
                    .set("peak_live_bytes", J::u(st.peak))
                    .set("peak_first_half", J::u(st.peak_first_half))
                    .set("bound_8chunk_4item_16k", J::u(bound)),
            );
        }
    }
}
