//! C11 - the buffered writer delivers exactly the written bytes, in order, once
//! (with `hostile`: the writer half of C14 - sinks that panic, then more operations and drop).
//!
//! A generated operation history is applied to a real `DeferredWriter` over an instrumented sink.
//! The client-side operation log and the sink's call log are merged per operation and judged
//! against a byte-stream model (`expected` = concatenation of everything written; integers rendered
//! by core's Display).

use crate::json::{excerpt, J};
use crate::prng::{Rng, H};
use crate::sink::{Sink, SinkEv, SinkPolicy};
use crate::src::ident_byte;
use crate::work::{sut_caught, Monitor, Report};
use flussab::DeferredWriter;
use std::io::Write;

#[derive(Clone, Copy, Debug)]
pub enum IntVal {
    I8(i8),
    I16(i16),
    I32(i32),
    I64(i64),
    I128(i128),
    Isize(isize),
    U8(u8),
    U16(u16),
    U32(u32),
    U64(u64),
    U128(u128),
    Usize(usize),
}

impl IntVal {
    pub fn text(&self) -> String {
        match *self {
            IntVal::I8(v) => v.to_string(),
            IntVal::I16(v) => v.to_string(),
            IntVal::I32(v) => v.to_string(),
            IntVal::I64(v) => v.to_string(),
            IntVal::I128(v) => v.to_string(),
            IntVal::Isize(v) => v.to_string(),
            IntVal::U8(v) => v.to_string(),
            IntVal::U16(v) => v.to_string(),
            IntVal::U32(v) => v.to_string(),
            IntVal::U64(v) => v.to_string(),
            IntVal::U128(v) => v.to_string(),
            IntVal::Usize(v) => v.to_string(),
        }
    }
    pub fn write(&self, w: &mut DeferredWriter) {
        use flussab::write::text::ascii_digits as ad;
        match *self {
            IntVal::I8(v) => ad(w, v),
            IntVal::I16(v) => ad(w, v),
            IntVal::I32(v) => ad(w, v),
            IntVal::I64(v) => ad(w, v),
            IntVal::I128(v) => ad(w, v),
            IntVal::Isize(v) => ad(w, v),
            IntVal::U8(v) => ad(w, v),
            IntVal::U16(v) => ad(w, v),
            IntVal::U32(v) => ad(w, v),
            IntVal::U64(v) => ad(w, v),
            IntVal::U128(v) => ad(w, v),
            IntVal::Usize(v) => ad(w, v),
        }
    }
    pub fn type_idx(&self) -> usize {
        match self {
            IntVal::I8(_) => 0,
            IntVal::I16(_) => 1,
            IntVal::I32(_) => 2,
            IntVal::I64(_) => 3,
            IntVal::I128(_) => 4,
            IntVal::Isize(_) => 5,
            IntVal::U8(_) => 6,
            IntVal::U16(_) => 7,
            IntVal::U32(_) => 8,
            IntVal::U64(_) => 9,
            IntVal::U128(_) => 10,
            IntVal::Usize(_) => 11,
        }
    }
}

fn gen_u128(rng: &mut Rng, max: u128) -> u128 {
    let v = match rng.below(8) {
        0 => 0,
        1 => max,
        2 => max - (rng.below(3) as u128).min(max),
        3 => {
            // every digit count: 10^k - 1, 10^k, 10^k + 1
            let k = rng.below(40) as u32;
            let p = 10u128.checked_pow(k).unwrap_or(u128::MAX);
            match rng.below(3) {
                0 => p.saturating_sub(1),
                1 => p,
                _ => p.saturating_add(1),
            }
        }
        4 => 1u128 << rng.below(128),
        5 => rng.below(100) as u128,
        6 => ((rng.next() as u128) << 64 | rng.next() as u128) >> rng.below(128),
        _ => rng.next() as u128,
    };
    if max == u128::MAX {
        v
    } else {
        v % (max + 1)
    }
}

pub fn gen_int(rng: &mut Rng) -> IntVal {
    macro_rules! signed {
        ($t:ty, $v:ident) => {{
            let m = gen_u128(rng, <$t>::MAX as u128);
            match rng.below(4) {
                0 => IntVal::$v(<$t>::MIN),
                1 => IntVal::$v((m as $t).wrapping_neg()),
                _ => IntVal::$v(m as $t),
            }
        }};
    }
    macro_rules! unsigned {
        ($t:ty, $v:ident) => {
            IntVal::$v(gen_u128(rng, <$t>::MAX as u128) as $t)
        };
    }
    match rng.below(12) {
        0 => signed!(i8, I8),
        1 => signed!(i16, I16),
        2 => signed!(i32, I32),
        3 => signed!(i64, I64),
        4 => signed!(i128, I128),
        5 => signed!(isize, Isize),
        6 => unsigned!(u8, U8),
        7 => unsigned!(u16, U16),
        8 => unsigned!(u32, U32),
        9 => unsigned!(u64, U64),
        10 => unsigned!(u128, U128),
        _ => unsigned!(usize, Usize),
    }
}

/// integers with the maximal number of characters of their type (MIN / MAX and neighbours)
pub fn gen_long_int(rng: &mut Rng) -> IntVal {
    let d = rng.below(3);
    match rng.below(12) {
        0 => IntVal::I8(i8::MIN + (d as i8) * 9),
        1 => IntVal::I16(i16::MIN + d as i16),
        2 => IntVal::I32(i32::MIN + d as i32),
        3 => IntVal::I64(i64::MIN + d as i64),
        4 => IntVal::I128(i128::MIN + d as i128),
        5 => IntVal::Isize(isize::MIN + d as isize),
        6 => IntVal::U8(u8::MAX - (d as u8) * 50),
        7 => IntVal::U16(u16::MAX - d as u16),
        8 => IntVal::U32(u32::MAX - d as u32),
        9 => IntVal::U64(u64::MAX - d),
        10 => IntVal::U128(u128::MAX - d as u128),
        _ => IntVal::Usize(usize::MAX - d as usize),
    }
}

#[derive(Clone, Debug)]
pub enum WOp {
    /// 0 = Write::write, 1 = Write::write_all, 2 = write_all_defer_err
    Bytes { api: u8, len: usize },
    Int(IntVal),
    /// buf_write_ptr(n), then write m <= n bytes through the pointer and advance_unchecked(m)
    Ptr { n: usize, m: usize },
    Flush,
    FlushDefer,
    CheckIoError,
    /// write exactly as many bytes as leave `spare` bytes of the buffer free (flushing first if
    /// needed); puts the following operation right at the end of the buffer
    FillSpare(usize),
    /// Write::write_vectored with slices of these lengths, repeated on the remainder until everything is
    /// accepted (what write_all_vectored does)
    Vectored(Vec<usize>),
    /// `write!` through the `Write` impl (`write_fmt`): template `kind` with arguments drawn from `seed`
    /// (chars and strings beyond ASCII, non-ASCII fill characters, padded integers, Debug escapes); what
    /// `format!` gives for the same arguments is what the sink has to receive
    Fmt { kind: u8, seed: u64 },
}

const FMT_KINDS: u8 = 10;
const FMT_CHARS: [char; 12] = ['a', '\u{e9}', '\u{2500}', '\u{1f600}', '\u{7f}', '\u{80}', '\u{df}', '\u{ff}', '\u{100}', '0', '\n', '\u{7ff}'];

/// Hands the `fmt::Arguments` of template `kind` (arguments drawn from `seed`) to `f`, exactly once.
pub fn fmt_apply(kind: u8, seed: u64, f: &mut dyn FnMut(std::fmt::Arguments<'_>)) {
    let mut r = Rng::new(seed);
    let c = *r.pick(&FMT_CHARS);
    let c2 = *r.pick(&FMT_CHARS);
    let s: String = (0..r.usize(14)).map(|_| *r.pick(&FMT_CHARS)).collect();
    let n = r.next() as i64 >> r.usize(64);
    let m = r.next() >> r.usize(64);
    let w = r.usize(24);
    match kind % FMT_KINDS {
        0 => f(format_args!("{}", c)),
        1 => f(format_args!("{}{}{}", s, c, c2)),
        2 => f(format_args!("{:\u{2500}>1$}", n, w)),
        3 => f(format_args!("{:\u{e9}<1$}|", s, w)),
        4 => f(format_args!("{:?}{:?}", s, c)),
        5 => f(format_args!("{:>1$}|{2}", c, w, m)),
        6 => f(format_args!("{:\u{1f600}^1$}", c2, w)),
        7 => f(format_args!("p cnf {} {}\n", m, n)),
        8 => f(format_args!("{0}{0}{1:\u{ff}^2$}{0}", c, m, w)),
        _ => f(format_args!("c {}\u{e9}{:#x} {:+}\n", s, m, n)),
    }
}

pub fn gen_history(rng: &mut Rng, cap: usize, max_ops: usize) -> Vec<WOp> {
    let n = 5 + rng.usize(max_ops.max(6) - 5);
    let style = rng.below(4);
    let mut ops = Vec::with_capacity(n);
    for _ in 0..n {
        if rng.chance(1, 16) {
            // boundary pair: leave 0..=45 spare bytes, then an operation that needs about that much
            let spare = rng.usize(46);
            ops.push(WOp::FillSpare(spare));
            ops.push(match rng.below(4) {
                0 | 1 => WOp::Int(gen_long_int(rng)),
                2 => WOp::Bytes {
                    api: rng.below(3) as u8,
                    len: (spare + rng.usize(3)).saturating_sub(1),
                },
                _ => {
                    let n = (spare + rng.usize(3)).saturating_sub(1);
                    WOp::Ptr { n, m: n }
                }
            });
            continue;
        }
        let w = rng.below(100);
        let op = match w {
            0..=39 => {
                let len = match (style, rng.below(10)) {
                    (_, 0) => 0,
                    (0, _) => rng.usize(64),
                    (_, 1) => cap - 40 + rng.usize(81),
                    (_, 2) => cap + rng.usize(2 * cap + 1),
                    // far larger than the buffer (multiples of its capacity and beyond any internal
                    // piece size), around 4*cap and 8*cap exactly
                    (_, 3) if rng.chance(1, 8) => match rng.below(4) {
                        0 => 4 * cap - 2 + rng.usize(5),
                        1 => 8 * cap - 2 + rng.usize(5),
                        2 => 4 * cap + 1 + rng.usize(8 * cap),
                        _ => (1 << 20) + rng.usize(3),
                    },
                    (_, 3) => rng.usize(3 * cap + 1),
                    (1, _) => 1000 + rng.usize(4000),
                    (_, 4..=5) => rng.usize(2000),
                    _ => rng.usize(40),
                };
                WOp::Bytes {
                    api: rng.below(3) as u8,
                    len,
                }
            }
            42 => WOp::Fmt {
                kind: rng.below(FMT_KINDS as u64) as u8,
                seed: rng.next(),
            },
            40..=41 => {
                // slices around the room that is left in the buffer: fits / does not fit / fits again
                let n = 1 + rng.usize(5);
                WOp::Vectored(
                    (0..n)
                        .map(|_| match rng.below(6) {
                            0 => 0,
                            1 => 1 + rng.usize(60),
                            2 => 400 + rng.usize(200),
                            3 => cap - 300 + rng.usize(600),
                            4 => rng.usize(2 * cap),
                            _ => 1 + rng.usize(20),
                        })
                        .collect(),
                )
            }
            43..=64 => WOp::Int(gen_int(rng)),
            65..=74 => {
                let n = match rng.below(5) {
                    0 => rng.usize(64),
                    1 => rng.usize(cap + 100),
                    2 => cap,
                    3 => 1 + rng.usize(8),
                    _ => rng.usize(3000),
                };
                let m = if rng.chance(1, 3) { n } else { rng.usize(n + 1) };
                WOp::Ptr { n, m }
            }
            75..=84 => WOp::Flush,
            85..=91 => WOp::FlushDefer,
            _ => WOp::CheckIoError,
        };
        ops.push(op);
    }
    ops
}

/// learn the writer's buffer capacity through the public API only
pub fn probe_capacity() -> usize {
    let sink = Sink::new(SinkPolicy::accept_all(), 0);
    let mut w = DeferredWriter::from_write(sink);
    let (mut lo, mut hi) = (0usize, 1usize << 26);
    // largest n with non-null pointer
    while lo < hi {
        let mid = lo + (hi - lo + 1) / 2;
        if !w.buf_write_ptr(mid).is_null() {
            lo = mid;
        } else {
            hi = mid - 1;
        }
    }
    lo
}

pub struct RunResult {
    pub problems: Vec<String>,
    pub sink_write_calls: u64,
    pub sink_events: usize,
    pub expected_len: usize,
    pub received_len: usize,
    pub failures: u64,
    pub reports: u64,
    pub panics: u64,
    pub cold_ints: u64,
    pub ptr_nonnull: u64,
    pub ptr_null: u64,
    pub int_types: u16,
    pub ops_done: usize,
    pub boundary_fills: u64,
    pub dropped_unwinding: bool,
    pub after_a_writer_lost_to_a_sink_panic: bool,
    pub vectored_ops: u64,
    pub fmt_ops: u64,
    pub fmt_non_ascii: u64,
}

/// Apply `ops` to a fresh writer over a sink with `policy`; judge after every operation.
pub fn run_history(ops: &[WOp], policy: SinkPolicy, sink_seed: u64, cap: usize, hostile: bool) -> RunResult {
    let failing_sink = !policy.fail_at.is_empty() || !policy.zero_at.is_empty();
    let policy_panic_at_none = policy.panic_at.is_none();
    let mut dropped_unwinding = false;
    // one run in five: an earlier writer on this thread lost its sink to a panic in the middle of a flush
    // and was dropped by the unwind with bytes still in its buffer - none of that may leak into this one
    let mut after_a_writer_lost_to_a_sink_panic = false;
    if !hostile && sink_seed % 5 == 1 {
        let mut pp = SinkPolicy::accept_all();
        pp.panic_at = Some(1);
        let psink = Sink::new(pp, 0);
        let r = sut_caught(move || {
            let mut a = DeferredWriter::from_write(psink);
            a.write_all_defer_err(b"BYTES-OF-AN-EARLIER-WRITER-WHOSE-SINK-PANICKED;");
            let _ = a.flush();
        });
        after_a_writer_lost_to_a_sink_panic = r.is_err();
    }
    let sink = Sink::new(policy, sink_seed);
    let mut w = Some(DeferredWriter::from_write(sink.clone()));
    let mut expected: Vec<u8> = vec![];
    let mut problems: Vec<String> = vec![];
    let mut ev_pos = 0usize; // sink events consumed
    let mut match_pos = 0usize; // in-order selection pointer into `expected`
    let mut pending_failures = 0u64; // sink failures not yet reported
    let mut failures = 0u64;
    let mut reports = 0u64;
    let mut panics = 0u64;
    let mut buffered_model: Option<usize> = Some(0); // bytes in the writer's buffer (None once unknown)
    let mut sink_panicked = false;
    let mut clean_from: usize = 0;
    let mut failed_since_clean = false;
    let mut cold_ints = 0u64;
    let (mut ptr_nonnull, mut ptr_null) = (0u64, 0u64);
    let mut int_types = 0u16;
    let mut ops_done = 0usize;
    let mut boundary_fills = 0u64;
    let mut vectored_ops = 0u64;
    let mut fmt_ops = 0u64;
    let mut fmt_non_ascii = 0u64;

    // judge the sink events produced by one client operation
    let mut judge = |expected: &Vec<u8>,
                     problems: &mut Vec<String>,
                     reported_err: Option<bool>,
                     pending_failures: &mut u64,
                     failures: &mut u64,
                     sink_panicked: &mut bool,
                     opname: &str| {
        let st = sink.0.borrow();
        for ev in &st.events[ev_pos..] {
            match ev {
                SinkEv::Write { offered, accepted } => {
                    if *pending_failures > 0 {
                        problems.push(format!(
                            "{}: sink called (write of {} bytes) while a failure was parked and not yet reported",
                            opname,
                            offered.len()
                        ));
                    }
                    if *sink_panicked {
                        continue;
                    }
                    let piece = &offered[..*accepted];
                    if piece.is_empty() {
                        continue;
                    }
                    // earliest in-order match
                    let hay = &expected[match_pos.min(expected.len())..];
                    match find(hay, piece) {
                        Some(i) => {
                            if !failing_sink && i != 0 {
                                problems.push(format!(
                                    "{}: sink received bytes that skip {} written bytes at stream offset {} (loss or reordering with a non-failing sink)",
                                    opname, i, match_pos
                                ));
                            }
                            match_pos += i + piece.len();
                        }
                        None => problems.push(format!(
                            "{}: sink received {} bytes ({}) that are not an in-order, duplicate-free continuation of the written stream after offset {}",
                            opname,
                            piece.len(),
                            excerpt(piece, 24),
                            match_pos
                        )),
                    }
                }
                SinkEv::WriteIntr { .. } => {
                    if *pending_failures > 0 {
                        problems.push(format!("{}: sink called while a failure was parked", opname));
                    }
                }
                SinkEv::WriteFail { .. } | SinkEv::WriteZero { .. } => {
                    if *pending_failures > 0 {
                        problems.push(format!("{}: sink called again while a failure was parked", opname));
                    }
                    *pending_failures += 1;
                    *failures += 1;
                }
                SinkEv::Flush => {
                    // the sink's own flush() is a call to the sink as well
                    if *pending_failures > 0 {
                        problems.push(format!(
                            "{}: the sink's flush() was called while a failure was parked (between the failure and its report)",
                            opname
                        ));
                    }
                }
                SinkEv::Panic => {
                    *sink_panicked = true;
                }
            }
        }
        ev_pos = st.events.len();
        // reports
        if let Some(got_err) = reported_err {
            if got_err {
                if *pending_failures == 0 {
                    problems.push(format!("{}: reported an I/O error although no sink failure was pending (reported twice?)", opname));
                } else {
                    *pending_failures -= 1;
                    if *pending_failures > 0 {
                        problems.push(format!("{}: more than one sink failure happened before a report", opname));
                        *pending_failures = 0;
                    }
                }
            } else if *pending_failures > 0 {
                problems.push(format!(
                    "{}: returned Ok although a sink failure was pending (error dropped / not reported by the next flush or error check)",
                    opname
                ));
                *pending_failures = 0;
            }
        }
    };

    for (i, op) in ops.iter().enumerate() {
        if !problems.is_empty() {
            break;
        }
        ops_done = i + 1;
        let wr = w.as_mut().unwrap();
        let opname = format!("op#{} {:?}", i, op);
        let mut reported: Option<bool> = None;
        let caught = match op {
            WOp::Bytes { api, len } => {
                let start = expected.len();
                let data: Vec<u8> = (start..start + len).map(ident_byte).collect();
                expected.extend_from_slice(&data);
                let r = sut_caught(|| match api {
                    0 => wr.write(&data).map(|n| n == data.len()),
                    1 => wr.write_all(&data).map(|_| true),
                    _ => {
                        wr.write_all_defer_err(&data);
                        Ok::<bool, std::io::Error>(true)
                    }
                });
                match &r {
                    Ok(Ok(true)) => {}
                    Ok(Ok(false)) => problems.push(format!("{}: write() returned a short count", opname)),
                    Ok(Err(e)) => problems.push(format!("{}: write call returned an error: {}", opname, e)),
                    Err(_) => {}
                }
                if let Some(b) = buffered_model.as_mut() {
                    *b = model_buffered_after_write(*b, *len, cap);
                }
                r.is_err()
            }
            WOp::Vectored(lens) => {
                let start = expected.len();
                let total: usize = lens.iter().sum();
                let data: Vec<u8> = (start..start + total).map(ident_byte).collect();
                expected.extend_from_slice(&data);
                let mut done = 0usize;
                let mut bad: Option<String> = None;
                let r = sut_caught(|| {
                    let mut rounds = 0;
                    while done < total {
                        // the slices that are left, the first one possibly cut
                        let mut slices: Vec<std::io::IoSlice> = vec![];
                        let mut off = 0;
                        for &l in lens.iter() {
                            let (a, b) = (off.max(done), off + l);
                            if b > a {
                                slices.push(std::io::IoSlice::new(&data[a..b]));
                            } else if l == 0 && off >= done {
                                slices.push(std::io::IoSlice::new(&[]));
                            }
                            off += l;
                        }
                        match wr.write_vectored(&slices) {
                            Ok(0) => {
                                bad = Some("write_vectored returned Ok(0) for non-empty slices".into());
                                break;
                            }
                            Ok(n) if n > total - done => {
                                bad = Some(format!("write_vectored returned {} for {} offered bytes", n, total - done));
                                break;
                            }
                            Ok(n) => done += n,
                            Err(e) => {
                                bad = Some(format!("write_vectored returned an error: {}", e));
                                break;
                            }
                        }
                        rounds += 1;
                        if rounds > 10_000 {
                            bad = Some("write_vectored makes no progress".into());
                            break;
                        }
                    }
                });
                if let Some(b) = bad {
                    problems.push(format!("{}: {}", opname, b));
                }
                vectored_ops += 1;
                buffered_model = None;
                r.is_err()
            }
            WOp::Fmt { kind, seed } => {
                let mut text = String::new();
                fmt_apply(*kind, *seed, &mut |a| {
                    let _ = std::fmt::Write::write_fmt(&mut text, a);
                });
                expected.extend_from_slice(text.as_bytes());
                let mut res: std::io::Result<()> = Ok(());
                let r = sut_caught(|| fmt_apply(*kind, *seed, &mut |a| res = wr.write_fmt(a)));
                if let Err(e) = &res {
                    problems.push(format!("{}: write! returned an error: {}", opname, e));
                }
                fmt_ops += 1;
                if !text.is_ascii() {
                    fmt_non_ascii += 1;
                }
                buffered_model = None;
                r.is_err()
            }
            WOp::Int(v) => {
                int_types |= 1 << v.type_idx();
                let text = v.text();
                expected.extend_from_slice(text.as_bytes());
                let before = sink.n_events();
                let r = sut_caught(|| v.write(wr));
                if sink.n_events() != before {
                    cold_ints += 1;
                }
                if let Some(b) = buffered_model.as_mut() {
                    // fast path needs MAX_LEN free bytes; otherwise goes through Write (same model)
                    *b = model_buffered_after_write(*b, text.len(), cap);
                }
                // the fast path may be taken or not depending on MAX_LEN: buffered amount is the same
                r.is_err()
            }
            WOp::Ptr { n, m } => {
                let r = sut_caught(|| wr.buf_write_ptr(*n));
                match r {
                    Ok(ptr) => {
                        if let Some(b) = buffered_model {
                            let fits = b + n <= cap;
                            if ptr.is_null() == fits {
                                problems.push(format!(
                                    "{}: buf_write_ptr({}) returned {} with {} bytes buffered and capacity {}",
                                    opname,
                                    n,
                                    if ptr.is_null() { "null" } else { "a pointer" },
                                    b,
                                    cap
                                ));
                            }
                        }
                        if !ptr.is_null() && problems.is_empty() {
                            ptr_nonnull += 1;
                            let start = expected.len();
                            for k in 0..*m {
                                let byte = ident_byte(start + k);
                                expected.push(byte);
                                // SAFETY (per the writer's contract): ptr is valid for n >= m bytes
                                unsafe { ptr.add(k).write(byte) };
                            }
                            unsafe { wr.advance_unchecked(*m) };
                            if let Some(b) = buffered_model.as_mut() {
                                *b += m;
                            }
                        } else {
                            ptr_null += 1;
                        }
                        false
                    }
                    Err(_) => true,
                }
            }
            WOp::FillSpare(spare) => {
                let r = sut_caught(|| {
                    let mut b = match buffered_model {
                        Some(b) if b + spare <= cap => b,
                        _ => {
                            wr.flush_defer_err();
                            0
                        }
                    };
                    let len = cap - b - (*spare).min(cap);
                    let start = expected.len();
                    let data: Vec<u8> = (start..start + len).map(ident_byte).collect();
                    wr.write_all_defer_err(&data);
                    b += len;
                    (data, b)
                });
                match r {
                    Ok((data, b)) => {
                        expected.extend_from_slice(&data);
                        buffered_model = Some(b);
                        boundary_fills += 1;
                        false
                    }
                    Err(_) => true,
                }
            }
            WOp::Flush => {
                let r = sut_caught(|| wr.flush());
                match r {
                    Ok(res) => {
                        reported = Some(res.is_err());
                        buffered_model = Some(0);
                        false
                    }
                    Err(_) => true,
                }
            }
            WOp::FlushDefer => {
                let r = sut_caught(|| wr.flush_defer_err());
                buffered_model = Some(0);
                r.is_err()
            }
            WOp::CheckIoError => {
                let r = sut_caught(|| wr.check_io_error());
                match r {
                    Ok(res) => {
                        reported = Some(res.is_err());
                        false
                    }
                    Err(_) => true,
                }
            }
        };
        if caught {
            panics += 1;
            if !hostile {
                problems.push(format!("{}: panicked", opname));
            }
            buffered_model = None;
        }
        let pf_before = pending_failures;
        judge(
            &expected,
            &mut problems,
            reported,
            &mut pending_failures,
            &mut failures,
            &mut sink_panicked,
            &opname,
        );
        if pending_failures > 0 || pf_before > 0 {
            failed_since_clean = true;
            // what the buffer holds after a failure is discarded data: model restarts at the next flush
            buffered_model = match op {
                WOp::Flush | WOp::FlushDefer => Some(0),
                _ => None,
            };
            if let WOp::FillSpare(_) = op {
                // it flushed first (the model was unknown), so the buffer holds exactly what it wrote
                // - unless the failure happened inside that very flush, which leaves the model unknown
            }
            if matches!(op, WOp::Flush | WOp::FlushDefer) {
                buffered_model = Some(0);
            }
        }
        if reported == Some(true) {
            reports += 1;
            // everything written from now on (until another failure) must arrive
            clean_from = expected.len();
            failed_since_clean = false;
            if matches!(op, WOp::CheckIoError) {
                // the buffer may still hold data written while the error was parked; it is delivered or
                // discarded by the implementation's choice - the model of `buffered` is unknown until a flush
                buffered_model = None;
                clean_from = expected.len();
            }
        }
        // non-failing sink: after a flush everything written so far has arrived
        if matches!(op, WOp::Flush | WOp::FlushDefer) && !failing_sink && !sink_panicked && !caught {
            let st = sink.0.borrow();
            if st.received != expected {
                problems.push(format!(
                    "{}: after flush the sink holds {} bytes, {} were written{}",
                    opname,
                    st.received.len(),
                    expected.len(),
                    first_diff(&st.received, &expected)
                ));
            }
        }
        if !failing_sink && !sink_panicked {
            let st = sink.0.borrow();
            if st.received.len() > expected.len() || st.received[..] != expected[..st.received.len()] {
                problems.push(format!(
                    "{}: sink contents are not a prefix of the written stream{}",
                    opname,
                    first_diff(&st.received, &expected)
                ));
            }
        }
    }
    // drop flushes
    if problems.is_empty() {
        let wr = w.take().unwrap();
        // one run in three: the writer is not dropped by leaving its scope but by the stack unwinding
        // from a panic of the code that uses it (the sink is healthy and outlives the unwind); what has
        // been written must arrive all the same
        let unwinding = !hostile && policy_panic_at_none && sink_seed % 3 == 0;
        let r = if unwinding {
            struct ClientUnwind;
            let res = std::panic::catch_unwind(std::panic::AssertUnwindSafe(move || {
                let _w = wr;
                // no panic hook output: this is the harness's own unwind
                std::panic::resume_unwind(Box::new(ClientUnwind));
            }));
            match res {
                Err(p) if p.is::<ClientUnwind>() => Ok(()),
                Err(_) => Err(("panic while the writer was dropped during unwinding".to_string(), String::new())),
                Ok(()) => Ok(()),
            }
        } else {
            sut_caught(move || drop(wr))
        };
        if unwinding {
            dropped_unwinding = true;
        }
        if r.is_err() {
            panics += 1;
            if !hostile {
                problems.push("drop panicked".into());
            }
        }
        judge(
            &expected,
            &mut problems,
            None,
            &mut pending_failures,
            &mut failures,
            &mut sink_panicked,
            "drop",
        );
        let st = sink.0.borrow();
        if !sink_panicked && r.is_ok() {
            if !failing_sink {
                if st.received != expected {
                    problems.push(format!(
                        "after drop the sink holds {} bytes, {} were written{}",
                        st.received.len(),
                        expected.len(),
                        first_diff(&st.received, &expected)
                    ));
                }
            } else if !failed_since_clean && pending_failures == 0 && reports > 0 {
                // writing resumed after the last report: all of that data must have arrived
                let tail = &expected[clean_from..];
                if !st.received.ends_with(tail) {
                    problems.push(format!(
                        "after the last error report {} more bytes were written without any further sink failure, but the sink's data does not end with them",
                        tail.len()
                    ));
                }
            }
        }
    } else {
        // do not run drop glue of a writer in an unknown state through the judged path
        let wr = w.take();
        let _ = sut_caught(move || drop(wr));
    }
    let st = sink.0.borrow();
    RunResult {
        problems,
        sink_write_calls: st.write_calls,
        sink_events: st.events.len(),
        expected_len: expected.len(),
        received_len: st.received.len(),
        failures,
        reports,
        panics,
        cold_ints,
        ptr_nonnull,
        ptr_null,
        int_types,
        ops_done,
        boundary_fills,
        dropped_unwinding,
        after_a_writer_lost_to_a_sink_panic,
        vectored_ops,
        fmt_ops,
        fmt_non_ascii,
    }
}

/// Buffered amount after write_all_defer_err(len) per the documented behaviour: fits -> appended;
/// otherwise fill to capacity, flush, then buffer the rest if it is smaller than the capacity or
/// write it through.
fn model_buffered_after_write(b: usize, len: usize, cap: usize) -> usize {
    if b + len <= cap {
        b + len
    } else if len < cap {
        // filled to capacity, flushed, rest buffered
        len - (cap - b)
    } else {
        0
    }
}

fn find(hay: &[u8], needle: &[u8]) -> Option<usize> {
    if needle.is_empty() {
        return Some(0);
    }
    if needle.len() > hay.len() {
        return None;
    }
    let first = needle[0];
    let mut i = 0;
    while i + needle.len() <= hay.len() {
        match hay[i..=hay.len() - needle.len()].iter().position(|&b| b == first) {
            None => return None,
            Some(p) => {
                i += p;
                if &hay[i..i + needle.len()] == needle {
                    return Some(i);
                }
                i += 1;
            }
        }
    }
    None
}

fn first_diff(a: &[u8], b: &[u8]) -> String {
    let n = a.len().min(b.len());
    match (0..n).find(|&i| a[i] != b[i]) {
        Some(i) => format!(
            " (first difference at offset {}: sink {} written {})",
            i,
            excerpt(&a[i..(i + 12).min(a.len())], 12),
            excerpt(&b[i..(i + 12).min(b.len())], 12)
        ),
        None => String::new(),
    }
}

pub struct C11 {
    pub hostile: bool,
    pub max_ops: usize,
    pub cap: usize,
    pub max_faults: usize,
}

impl C11 {
    pub fn new(hostile: bool, max_ops: usize, max_faults: usize) -> C11 {
        C11 {
            hostile,
            max_ops,
            cap: probe_capacity(),
            max_faults,
        }
    }
}

impl Monitor for C11 {
    fn case(&mut self, _idx: u64, rng: &mut Rng, rep: &mut Report) {
        let ops = gen_history(rng, self.cap, self.max_ops);
        let sink_seed = rng.next();
        let base_policy = match rng.below(3) {
            0 => SinkPolicy::accept_all(),
            1 => SinkPolicy {
                short: 8,
                intr: 0,
                ..SinkPolicy::accept_all()
            },
            _ => SinkPolicy {
                short: 6,
                intr: 5,
                ..SinkPolicy::accept_all()
            },
        };
        let mut runs: Vec<(SinkPolicy, RunResult)> = vec![];
        let base = run_history(&ops, base_policy.clone(), sink_seed, self.cap, false);
        let calls = base.sink_write_calls;
        runs.push((base_policy.clone(), base));
        if !self.hostile {
            // fault enumeration: fail at every sink write call j that occurs (capped, sampled beyond)
            let mut js: Vec<u64> = (1..=calls).collect();
            if js.len() > self.max_faults {
                rng.shuffle(&mut js);
                js.truncate(self.max_faults);
            }
            for j in js {
                let mut p = base_policy.clone();
                let mut second = None;
                if rng.chance(1, 4) {
                    p.zero_at = vec![j];
                } else {
                    p.fail_at = vec![j];
                }
                if rng.chance(1, 3) {
                    // a second failure later on
                    let k = j + 1 + rng.below(6);
                    p.fail_at.push(k);
                    second = Some(k);
                }
                let _ = second;
                let r = run_history(&ops, p.clone(), sink_seed, self.cap, false);
                runs.push((p, r));
            }
        } else {
            for _ in 0..3 {
                let mut p = base_policy.clone();
                p.panic_at = Some(1 + rng.below(calls.max(1)));
                if rng.chance(1, 3) {
                    p.fail_at = vec![1 + rng.below(calls.max(1))];
                }
                let r = run_history(&ops, p.clone(), sink_seed, self.cap, true);
                runs.push((p, r));
            }
        }
        rep.count("histories", 1);
        for (policy, r) in &runs {
            rep.inc("runs");
            rep.count("ops", r.ops_done as u64);
            rep.count("sink_write_calls", r.sink_write_calls);
            rep.count("bytes_written", r.expected_len as u64);
            rep.count("sink_failures_injected", r.failures);
            rep.count("error_reports", r.reports);
            rep.count("panics_caught", r.panics);
            rep.count("ints_via_cold_path", r.cold_ints);
            rep.count("buf_write_ptr_nonnull", r.ptr_nonnull);
            rep.count("buf_write_ptr_null", r.ptr_null);
            rep.count("boundary_fills", r.boundary_fills);
            rep.count("client_write_vectored_ops", r.vectored_ops);
            rep.count("client_write_fmt_ops", r.fmt_ops);
            rep.count("client_write_fmt_ops_with_non_ascii_output", r.fmt_non_ascii);
            if r.dropped_unwinding {
                rep.inc("writers_dropped_by_unwinding_from_a_client_panic");
            }
            if r.after_a_writer_lost_to_a_sink_panic {
                rep.inc("runs_after_an_earlier_writer_lost_its_sink_to_a_panic");
            }
            for t in 0..12 {
                if r.int_types & (1 << t) != 0 {
                    rep.inc(&format!("int_type:{}", crate::c13::TYPES[t]));
                }
            }
            let nontrivial = r.sink_write_calls >= 2 && r.expected_len > self.cap;
            if nontrivial {
                rep.nontrivial(
                    H::new()
                        .u(rep.cur)
                        .u(r.sink_write_calls)
                        .u(policy.fail_at.first().copied().unwrap_or(0))
                        .u(policy.zero_at.first().copied().unwrap_or(0))
                        .u(policy.panic_at.unwrap_or(0))
                        .u(r.expected_len as u64)
                        .get(),
                );
                if r.failures > 0 || self.hostile {
                    rep.sample(|| {
                        J::obj()
                            .set("ops", J::u(ops.len()))
                            .set("first_ops", J::A(ops.iter().take(8).map(|o| J::s(format!("{:?}", o))).collect()))
                            .set("sink_policy", J::s(format!("{:?}", policy)))
                            .set("sink_write_calls", J::U(r.sink_write_calls))
                            .set("bytes_written", J::u(r.expected_len))
                            .set("bytes_received", J::u(r.received_len))
                            .set("sink_failures", J::U(r.failures))
                            .set("error_reports", J::U(r.reports))
                            .set("panics_caught", J::U(r.panics))
                    });
                }
            }
            if !r.problems.is_empty() {
                let kind: String = r.problems[0]
                    .splitn(2, ": ")
                    .nth(1)
                    .unwrap_or(&r.problems[0])
                    .chars()
                    .filter(|c| !c.is_ascii_digit())
                    .take(48)
                    .collect();
                rep.violation(
                    &kind,
                    J::obj()
                        .set("sink_policy", J::s(format!("{:?}", policy)))
                        .set("capacity", J::u(self.cap))
                        .set("problems", J::A(r.problems.iter().map(|p| J::s(p.clone())).collect()))
                        .set(
                            "history",
                            J::A(ops.iter().take(r.ops_done).map(|o| J::s(format!("{:?}", o))).collect()),
                        ),
                );
                break;
            }
        }
    }
    fn panic_is_violation(&self) -> bool {
        true
    }
}
