//! C12 - AIG renumbering preserves the circuit and yields a binary-legal order.
//!
//! Random well-formed and-inverter graphs (sparse unordered numbering, shuffled gate order, constants
//! and negations as gate inputs, x&x, x&!x, duplicate and unused gates) go through
//! Renumber::renumber_aig for all 8 option combinations. An independent simulator (iterative,
//! memoised, 64 assignments in parallel per u64) evaluates every root literal in the original and in
//! the result; the numbering and ordering rules are checked; lit_map is checked per literal; the
//! result goes through the binary writer and parser. Ill-formed graphs (one defect each) must yield
//! the corresponding error.

use crate::drive::{self, Ctor, Outcome, PCfg, PK};
use crate::json::J;
use crate::prng::{Rng, H};
use crate::src::{Policy, Src};
use crate::work::{sut, Monitor, Report};
use flussab::DeferredWriter;
use flussab_aiger::aig::{Aig, AigStructureError, AndGate, Latch, Renumber, RenumberConfig, Symbol, SymbolTarget};
use std::borrow::Cow;
use std::collections::HashMap;
use std::io::Write;

#[derive(Clone, Debug, Default)]
pub struct Graph {
    pub m: u64,
    pub inputs: Vec<u64>,
    /// (state, next, init)
    pub latches: Vec<(u64, u64, Option<bool>)>,
    pub outputs: Vec<u64>,
    pub bad: Vec<u64>,
    pub constr: Vec<u64>,
    pub justice: Vec<Vec<u64>>,
    pub fair: Vec<u64>,
    /// (out, in0, in1) in file order (shuffled against dependency order)
    pub ands: Vec<(u64, u64, u64)>,
    pub symbols: Vec<(u8, usize, String)>,
    pub comment: Option<String>,
}

impl Graph {
    pub fn roots(&self) -> Vec<u64> {
        let mut r: Vec<u64> = self.latches.iter().map(|l| l.1).collect();
        r.extend(&self.outputs);
        r.extend(&self.bad);
        r.extend(&self.constr);
        r.extend(&self.fair);
        for j in &self.justice {
            r.extend(j);
        }
        r
    }
}

#[derive(Debug, Clone)]
pub struct RenOut {
    pub max_var_index: u64,
    pub input_count: u64,
    pub latches: Vec<(u64, Option<bool>)>,
    pub outputs: Vec<u64>,
    pub bad: Vec<u64>,
    pub constr: Vec<u64>,
    pub justice: Vec<Vec<u64>>,
    pub fair: Vec<u64>,
    pub ands: Vec<[u64; 2]>,
    pub symbols_same: bool,
    pub comment_same: bool,
    /// (original literal, mapped literal if any)
    pub map: Vec<(u64, Option<u64>)>,
    pub binary_roundtrip: Result<(), String>,
}

#[derive(Debug, Clone)]
pub enum RenRes {
    Ok(Box<RenOut>),
    Err(&'static str, u64),
}

fn build<L: flussab_aiger::Lit>(g: &Graph) -> Aig<L> {
    let l = |c: u64| L::from_code(c as usize);
    Aig {
        max_var_index: g.m as usize,
        inputs: g.inputs.iter().map(|&c| l(c)).collect(),
        latches: g
            .latches
            .iter()
            .map(|&(s, n, i)| Latch {
                state: l(s),
                next_state: l(n),
                initialization: i,
            })
            .collect(),
        outputs: g.outputs.iter().map(|&c| l(c)).collect(),
        bad_state_properties: g.bad.iter().map(|&c| l(c)).collect(),
        invariant_constraints: g.constr.iter().map(|&c| l(c)).collect(),
        justice_properties: g.justice.iter().map(|j| j.iter().map(|&c| l(c)).collect()).collect(),
        fairness_constraints: g.fair.iter().map(|&c| l(c)).collect(),
        and_gates: g
            .ands
            .iter()
            .map(|&(o, a, b)| AndGate {
                inputs: [l(a), l(b)],
                output: l(o),
            })
            .collect(),
        symbols: g
            .symbols
            .iter()
            .map(|(k, i, n)| Symbol {
                target: match k {
                    b'i' => SymbolTarget::Input(*i),
                    b'l' => SymbolTarget::Latch(*i),
                    b'o' => SymbolTarget::Output(*i),
                    b'b' => SymbolTarget::BadStateProperty(*i),
                    b'c' => SymbolTarget::InvariantConstraint(*i),
                    b'j' => SymbolTarget::JusticeProperty(*i),
                    _ => SymbolTarget::FairnessConstraint(*i),
                },
                name: Cow::Owned(n.clone()),
            })
            .collect(),
        comment: g.comment.clone(),
    }
}

fn run_t<L: flussab_aiger::Lit + std::fmt::Display>(g: &Graph, opts: u8, query: &[u64], lt: u8) -> RenRes {
    let aig = build::<L>(g);
    let mk_cfg = || {
        RenumberConfig::default()
            .trim(opts & 1 != 0)
            .structural_hash(opts & 2 != 0)
            .const_fold(opts & 4 != 0)
    };
    let cfg = mk_cfg();
    // the other public entry point: Renumber::new builds the same renumbering without assembling the
    // output circuit; verdict, literal map and gate list must be those of renumber_aig
    let by_new = Renumber::new(mk_cfg(), &aig);
    let main = Renumber::renumber_aig(cfg, &aig);
    match (&main, &by_new) {
        (Err(_), Ok(_)) => return RenRes::Err("Renumber::new ACCEPTS a graph that renumber_aig rejects", 0),
        (Ok(_), Err(_)) => return RenRes::Err("Renumber::new REJECTS a graph that renumber_aig accepts", 0),
        _ => {}
    }
    match main {
        Err(AigStructureError::LitAlreadyDefined { lit }) => RenRes::Err("LitAlreadyDefined", lit.code() as u64),
        Err(AigStructureError::LitNotDefined { lit }) => RenRes::Err("LitNotDefined", lit.code() as u64),
        Err(AigStructureError::FoundCycle { lit }) => RenRes::Err("FoundCycle", lit.code() as u64),
        Ok((o, ren)) => {
            let c = |l: &L| l.code() as u64;
            let map: Vec<(u64, Option<u64>)> = query
                .iter()
                .map(|&q| (q, ren.lit_map().get(L::from_code(q as usize)).map(|m| m.code() as u64)))
                .collect();
            let new_agrees = match &by_new {
                Ok(n) => {
                    n.and_gates() == &o.and_gates[..]
                        && query.iter().all(|&q| {
                            n.lit_map().get(L::from_code(q as usize)).map(|m| m.code())
                                == ren.lit_map().get(L::from_code(q as usize)).map(|m| m.code())
                        })
                }
                Err(_) => false,
            };
            // the map's other accessors must agree with get()
            let accessors_agree = query.iter().zip(&map).all(|(&q, m)| {
                ren.lit_map().contains_key(L::from_code(q as usize)) == m.1.is_some()
            }) && ren.lit_map().is_empty() == (ren.lit_map().len() == 0)
                && ren.lit_map().len() >= 1;
            // binary writer + parser
            let mut bytes = vec![];
            {
                let dw = DeferredWriter::from_write(&mut bytes);
                let mut w = flussab_aiger::binary::Writer::<L>::new(dw);
                w.write_ordered_aig(&o);
                let _ = w.writer.flush();
            }
            let pcfg = PCfg {
                pk: PK::Aig,
                lt,
                flag: false,
                sections: false,
                skip: 0,
            };
            let tr = drive::run_collect(pcfg, Ctor::Chunk(16384), Src::from_bytes(&bytes, Policy::OneShot, 0));
            let mut expect: Vec<String> = vec![];
            for l in &o.latches {
                expect.push(format!(
                    "LATCH {} {}",
                    l.next_state,
                    match l.initialization {
                        Some(false) => "0",
                        Some(true) => "1",
                        None => "x",
                    }
                ));
            }
            for x in &o.outputs {
                expect.push(format!("OUT {}", x));
            }
            for x in &o.bad_state_properties {
                expect.push(format!("BAD {}", x));
            }
            for x in &o.invariant_constraints {
                expect.push(format!("CONSTR {}", x));
            }
            for j in &o.justice_properties {
                expect.push(format!("JSIZE {}", j.len()));
            }
            for j in &o.justice_properties {
                for x in j {
                    expect.push(format!("JLIT {}", x));
                }
            }
            for x in &o.fairness_constraints {
                expect.push(format!("FAIR {}", x));
            }
            for gte in &o.and_gates {
                expect.push(format!("AND {} {}", gte.inputs[0], gte.inputs[1]));
            }
            let binary_roundtrip = if tr.outcome != Outcome::End {
                Err(format!("binary parser rejects the renumbered circuit: {}", tr.outcome.describe()))
            } else if tr.items.len() < 1 + expect.len() || tr.items[1..1 + expect.len()] != expect[..] {
                Err("binary round trip of the renumbered circuit changes it".to_string())
            } else {
                Ok(())
            };
            RenRes::Ok(Box::new(RenOut {
                max_var_index: o.max_var_index as u64,
                input_count: o.input_count as u64,
                latches: o.latches.iter().map(|l| (c(&l.next_state), l.initialization)).collect(),
                outputs: o.outputs.iter().map(c).collect(),
                bad: o.bad_state_properties.iter().map(c).collect(),
                constr: o.invariant_constraints.iter().map(c).collect(),
                justice: o.justice_properties.iter().map(|j| j.iter().map(c).collect()).collect(),
                fair: o.fairness_constraints.iter().map(c).collect(),
                ands: o.and_gates.iter().map(|g| [c(&g.inputs[0]), c(&g.inputs[1])]).collect(),
                symbols_same: o.symbols == aig.symbols && accessors_agree && new_agrees,
                comment_same: o.comment == aig.comment,
                map,
                binary_roundtrip,
            }))
        }
    }
}

pub fn run(g: &Graph, lt: u8, opts: u8, query: &[u64]) -> RenRes {
    match lt {
        0 => run_t::<u8>(g, opts, query, lt),
        1 => run_t::<u16>(g, opts, query, lt),
        2 => run_t::<u32>(g, opts, query, lt),
        3 => run_t::<u64>(g, opts, query, lt),
        _ => run_t::<usize>(g, opts, query, lt),
    }
}

// ------------------------------------------------------------------------------ simulator

/// Evaluates literals of the ORIGINAL graph under an assignment to input / latch variables.
pub struct SimOrig<'a> {
    #[allow(dead_code)]
    g: &'a Graph,
    defs: HashMap<u64, (u64, u64, u64)>, // gate var -> (in0, in1, polarity of the output literal)
    val: HashMap<u64, u64>,         // var -> value
}

impl<'a> SimOrig<'a> {
    pub fn new(g: &'a Graph, assign: &[u64]) -> SimOrig<'a> {
        let mut val = HashMap::new();
        val.insert(0, 0u64);
        for (i, &x) in g.inputs.iter().enumerate() {
            val.insert(x >> 1, assign[i] ^ if x & 1 == 1 { !0 } else { 0 });
        }
        for (i, l) in g.latches.iter().enumerate() {
            val.insert(l.0 >> 1, assign[g.inputs.len() + i] ^ if l.0 & 1 == 1 { !0 } else { 0 });
        }
        // (an odd output literal would mean the gate defines the negation; handled in eval)
        let mut defs2 = HashMap::new();
        for &(o, a, b) in &g.ands {
            defs2.insert(o >> 1, (a, b, o & 1));
        }
        SimOrig { g, defs: defs2, val }
    }
    /// None if the literal depends on an undefined variable or a cycle
    pub fn eval(&mut self, lit: u64) -> Option<u64> {
        let root = lit >> 1;
        // iterative post-order
        let mut stack: Vec<(u64, u8)> = vec![(root, 0)];
        let mut on_path: std::collections::HashSet<u64> = Default::default();
        while let Some(&(v, st)) = stack.last() {
            if self.val.contains_key(&v) {
                stack.pop();
                continue;
            }
            let &(a, b, out_neg) = self.defs.get(&v)?;
            match st {
                0 => {
                    if !on_path.insert(v) {
                        return None;
                    }
                    stack.last_mut().unwrap().1 = 1;
                    if !self.val.contains_key(&(a >> 1)) {
                        if on_path.contains(&(a >> 1)) {
                            return None;
                        }
                        stack.push((a >> 1, 0));
                    }
                }
                1 => {
                    stack.last_mut().unwrap().1 = 2;
                    if !self.val.contains_key(&(b >> 1)) {
                        if on_path.contains(&(b >> 1)) {
                            return None;
                        }
                        stack.push((b >> 1, 0));
                    }
                }
                _ => {
                    let va = self.val[&(a >> 1)] ^ if a & 1 == 1 { !0 } else { 0 };
                    let vb = self.val[&(b >> 1)] ^ if b & 1 == 1 { !0 } else { 0 };
                    // the gate's output literal may itself be odd: the defined variable is its negation
                    self.val.insert(v, (va & vb) ^ if out_neg == 1 { !0 } else { 0 });
                    on_path.remove(&v);
                    stack.pop();
                }
            }
        }
        Some(self.val[&root] ^ if lit & 1 == 1 { !0 } else { 0 })
    }
}

/// Values of all variables of the renumbered circuit (index = variable).
pub fn sim_new(o: &RenOut, assign: &[u64]) -> Result<Vec<u64>, String> {
    let n = o.max_var_index as usize;
    let mut val = vec![0u64; n + 1];
    let il = o.input_count as usize + o.latches.len();
    if il + o.ands.len() != n {
        return Err(format!(
            "max_var_index {} != inputs {} + latches {} + gates {}",
            n,
            o.input_count,
            o.latches.len(),
            o.ands.len()
        ));
    }
    for i in 0..il {
        val[i + 1] = assign[i];
    }
    for (k, g) in o.ands.iter().enumerate() {
        let code = 2 * (il + 1 + k) as u64;
        if g[0] >= code || g[1] >= code {
            return Err(format!("gate {} (code {}) has an input {:?} not numbered below it", k, code, g));
        }
        if g[0] < g[1] {
            return Err(format!("gate {} (code {}) has its smaller input first: {:?}", k, code, g));
        }
        let e = |l: u64, val: &Vec<u64>| val[(l >> 1) as usize] ^ if l & 1 == 1 { !0 } else { 0 };
        val[il + 1 + k] = e(g[0], &val) & e(g[1], &val);
    }
    Ok(val)
}

fn ev(val: &[u64], l: u64) -> Option<u64> {
    val.get((l >> 1) as usize).map(|v| v ^ if l & 1 == 1 { !0 } else { 0 })
}

// ------------------------------------------------------------------------------ generator

pub fn gen_graph(rng: &mut Rng, lt: u8, size: usize) -> Graph {
    let max_m = ((crate::gen::max_code(lt) - 1) / 2).min(1 << 40);
    let cnt = |rng: &mut Rng, cap: usize| -> usize {
        match rng.below(6) {
            0 => 0,
            1 => 1,
            2 => 2,
            _ => rng.usize(cap + 1),
        }
    };
    let budget = max_m as usize;
    let ni = cnt(rng, size.min(8)).min(budget);
    let nl = cnt(rng, size.min(6)).min(budget - ni);
    let na = cnt(rng, size).min(budget - ni - nl);
    let total = ni + nl + na;
    // sparse, unordered variable numbering
    let m = if rng.chance(1, 3) {
        total as u64
    } else {
        (total as u64 + rng.below(20)).max(total as u64).min(max_m)
    };
    let m = if rng.chance(1, 6) { max_m.max(total as u64) } else { m };
    let mut vars: Vec<u64> = if m <= 4096 {
        let mut all: Vec<u64> = (1..=m).collect();
        rng.shuffle(&mut all);
        all.truncate(total);
        all
    } else {
        let mut set = std::collections::BTreeSet::new();
        while set.len() < total {
            set.insert(1 + rng.below(m));
        }
        let mut v: Vec<u64> = set.into_iter().collect();
        rng.shuffle(&mut v);
        v
    };
    if rng.chance(1, 4) {
        vars.sort();
    }
    let inputs: Vec<u64> = vars[..ni].iter().map(|v| 2 * v).collect();
    let lvars: Vec<u64> = vars[ni..ni + nl].to_vec();
    let gvars: Vec<u64> = vars[ni + nl..].to_vec();
    // gates in dependency order first
    let mut avail: Vec<u64> = vec![0];
    avail.extend(inputs.iter().copied());
    avail.extend(lvars.iter().map(|v| 2 * v));
    let mut ands: Vec<(u64, u64, u64)> = vec![];
    let chainy = rng.chance(1, 4);
    for (k, &gv) in gvars.iter().enumerate() {
        let pick = |rng: &mut Rng, avail: &Vec<u64>| -> u64 {
            let base = if chainy && rng.chance(3, 4) {
                avail[avail.len() - 1]
            } else if rng.chance(1, 10) {
                0
            } else {
                avail[rng.usize(avail.len())]
            };
            base ^ rng.below(2)
        };
        let a = pick(rng, &avail);
        let b = match rng.below(10) {
            0 => a,     // x & x
            1 => a ^ 1, // x & !x
            2 if k > 0 => {
                // duplicate of an earlier gate (structural hashing)
                let (_, pa, pb) = ands[rng.usize(k)];
                ands.push((2 * gv, pa, pb));
                avail.push(2 * gv);
                continue;
            }
            _ => pick(rng, &avail),
        };
        ands.push((2 * gv, a, b));
        avail.push(2 * gv);
    }
    let any = |rng: &mut Rng| -> u64 { avail[rng.usize(avail.len())] ^ rng.below(2) };
    let latches: Vec<(u64, u64, Option<bool>)> = lvars
        .iter()
        .map(|v| {
            (
                2 * v,
                any(rng),
                match rng.below(3) {
                    0 => Some(false),
                    1 => Some(true),
                    _ => None,
                },
            )
        })
        .collect();
    let lits = |rng: &mut Rng, n: usize| -> Vec<u64> { (0..n).map(|_| any(rng)).collect() };
    let no = cnt(rng, 4);
    let outputs = lits(rng, no);
    let (nb, nc, nj, nf) = if rng.chance(1, 2) {
        (0, 0, 0, 0)
    } else {
        (cnt(rng, 3), cnt(rng, 3), cnt(rng, 3), cnt(rng, 3))
    };
    let bad = lits(rng, nb);
    let constr = lits(rng, nc);
    let fair = lits(rng, nf);
    let justice: Vec<Vec<u64>> = (0..nj).map(|_| { let k = rng.usize(4); lits(rng, k) }).collect();
    if rng.chance(3, 4) {
        rng.shuffle(&mut ands);
    }
    let mut symbols = vec![];
    if rng.chance(1, 2) {
        for (k, c) in [(b'i', ni), (b'l', nl), (b'o', no), (b'b', nb), (b'c', nc), (b'j', nj), (b'f', nf)] {
            if c > 0 && rng.chance(1, 2) {
                symbols.push((k, rng.usize(c), format!("s{}", rng.below(1000))));
            }
        }
    }
    Graph {
        m,
        inputs,
        latches,
        outputs,
        bad,
        constr,
        justice,
        fair,
        ands,
        symbols,
        comment: if rng.chance(1, 3) { Some("a comment\nwith two lines".into()) } else { None },
    }
}

pub fn patterns(rng: &mut Rng, nvars: usize, round: usize) -> Vec<u64> {
    const CANON: [u64; 6] = [
        0xaaaaaaaaaaaaaaaa,
        0xcccccccccccccccc,
        0xf0f0f0f0f0f0f0f0,
        0xff00ff00ff00ff00,
        0xffff0000ffff0000,
        0xffffffff00000000,
    ];
    if nvars <= 6 && round == 0 {
        CANON[..nvars].to_vec()
    } else {
        (0..nvars).map(|_| rng.next()).collect()
    }
}

/// Checks one successful renumbering against the original graph. Returns problems.
pub fn check_ok(rng: &mut Rng, g: &Graph, o: &RenOut, rounds: usize, rep: &mut Report) -> Vec<String> {
    let mut p = vec![];
    if o.input_count as usize != g.inputs.len() || o.latches.len() != g.latches.len() {
        p.push("input / latch count changed".to_string());
        return p;
    }
    if o.outputs.len() != g.outputs.len()
        || o.bad.len() != g.bad.len()
        || o.constr.len() != g.constr.len()
        || o.fair.len() != g.fair.len()
        || o.justice.len() != g.justice.len()
        || o.justice.iter().zip(&g.justice).any(|(a, b)| a.len() != b.len())
    {
        p.push("a section changed its size".to_string());
        return p;
    }
    for (i, l) in g.latches.iter().enumerate() {
        if o.latches[i].1 != l.2 {
            p.push(format!("latch {} reset value changed: {:?} -> {:?}", i, l.2, o.latches[i].1));
        }
    }
    if !o.symbols_same {
        p.push("symbols not carried over".into());
    }
    if !o.comment_same {
        p.push("comment not carried over".into());
    }
    if let Err(e) = &o.binary_roundtrip {
        p.push(e.clone());
    }
    let nv = g.inputs.len() + g.latches.len();
    let rounds = if nv <= 6 { 1.max(rounds.min(2)) } else { rounds };
    for round in 0..rounds {
        let assign = patterns(rng, nv, round);
        let newv = match sim_new(o, &assign) {
            Ok(v) => v,
            Err(e) => {
                p.push(e);
                return p;
            }
        };
        let mut so = SimOrig::new(g, &assign);
        let mut map_checks = 0u64;
        let mut comparisons = 0u64;
        let mut cmp = |what: &str, ol: u64, nl: u64, p: &mut Vec<String>| {
            comparisons += 1;
            let a = so.eval(ol);
            let b = ev(&newv, nl);
            match (a, b) {
                (Some(a), Some(b)) if a == b => {}
                (Some(a), Some(b)) => p.push(format!(
                    "{}: original literal {} and its image {} differ under assignment(s) {:#018x}",
                    what,
                    ol,
                    nl,
                    a ^ b
                )),
                (a, b) => p.push(format!("{}: literal {} -> {} not evaluable ({:?},{:?})", what, ol, nl, a.is_some(), b.is_some())),
            }
        };
        for (i, l) in g.latches.iter().enumerate() {
            cmp("latch next-state", l.1, o.latches[i].0, &mut p);
        }
        for (a, b) in g.outputs.iter().zip(&o.outputs) {
            cmp("output", *a, *b, &mut p);
        }
        for (a, b) in g.bad.iter().zip(&o.bad) {
            cmp("bad", *a, *b, &mut p);
        }
        for (a, b) in g.constr.iter().zip(&o.constr) {
            cmp("constraint", *a, *b, &mut p);
        }
        for (a, b) in g.fair.iter().zip(&o.fair) {
            cmp("fairness", *a, *b, &mut p);
        }
        for (ja, jb) in g.justice.iter().zip(&o.justice) {
            for (a, b) in ja.iter().zip(jb) {
                cmp("justice", *a, *b, &mut p);
            }
        }
        for &(q, m) in &o.map {
            if let Some(m) = m {
                map_checks += 1;
                cmp("lit_map", q, m, &mut p);
            }
        }
        rep.count("lit_map_checks", map_checks);
        rep.count("literal_comparisons", comparisons);
        if !p.is_empty() {
            break;
        }
    }
    p
}

pub struct C12 {
    pub mode: String,
    pub rounds: usize,
    pub deep_log2: u32,
}

fn graph_json(g: &Graph) -> J {
    J::obj()
        .set("max_var_index", J::U(g.m))
        .set("inputs", J::s(format!("{:?}", g.inputs)))
        .set("latches(state,next,init)", J::s(format!("{:?}", g.latches)))
        .set("outputs", J::s(format!("{:?}", g.outputs)))
        .set("bad", J::s(format!("{:?}", g.bad)))
        .set("constraints", J::s(format!("{:?}", g.constr)))
        .set("justice", J::s(format!("{:?}", g.justice)))
        .set("fairness", J::s(format!("{:?}", g.fair)))
        .set(
            "and_gates(out,in0,in1)",
            J::s(format!("{:?}", &g.ands[..g.ands.len().min(60)])),
        )
}

impl Monitor for C12 {
    fn case(&mut self, idx: u64, rng: &mut Rng, rep: &mut Report) {
        let lt = (idx % 5) as u8;
        if self.mode == "deep" {
            // bounded restatement of "arbitrarily deep": chains and balanced DAGs, small stack
            let n = 1usize << self.deep_log2;
            let shape = idx % 3;
            let mut g = Graph::default();
            g.inputs = vec![2, 4];
            let first = 3u64;
            for k in 0..n as u64 {
                let out = 2 * (first + k);
                let (a, b) = match shape {
                    0 => (if k == 0 { 2 } else { out - 2 } ^ (k & 1), 4), // chain
                    1 => {
                        // balanced-ish DAG: inputs are gates k/2 and k/2+1 back
                        let x = if k < 2 { 2 } else { 2 * (first + k / 2) };
                        let y = if k < 3 { 4 } else { 2 * (first + k / 2 - 1) };
                        (x ^ 1, y)
                    }
                    _ => (if k == 0 { 2 } else { out - 2 }, if k == 0 { 4 } else { (out - 2) ^ (k & 1) }),
                };
                g.ands.push((out, a, b));
            }
            g.m = first + n as u64 - 1;
            g.outputs = vec![2 * (first + n as u64 - 1) ^ 1];
            if idx % 2 == 0 {
                g.ands.reverse();
            }
            let opts = (idx % 8) as u8;
            let g2 = g.clone();
            let handle = std::thread::Builder::new()
                .stack_size(256 * 1024)
                .spawn(move || run(&g2, 4, opts, &[]))
                .expect("spawn");
            let res = sut(|| handle.join());
            rep.inc("deep_graphs");
            rep.count("deep_gates", n as u64);
            match res {
                Ok(RenRes::Ok(o)) => {
                    rep.nontrivial(H::new().u(idx).u(n as u64).get());
                    let mut r2 = rng.fork();
                    let pr = check_ok(&mut r2, &g, &o, 1, rep);
                    if !pr.is_empty() {
                        rep.violation(
                            "deep:wrong",
                            J::obj().set("gates", J::u(n)).set("shape", J::U(shape)).set("options", J::u(opts)).set(
                                "problems",
                                J::A(pr.into_iter().take(4).map(J::s).collect()),
                            ),
                        );
                    }
                    rep.sample(|| {
                        J::obj()
                            .set("deep_graph_gates", J::u(n))
                            .set("shape", J::s(["chain", "dag", "double-chain"][shape as usize]))
                            .set("options(trim|hash|fold)", J::u(opts))
                            .set("result_gates", J::u(o.ands.len()))
                    });
                }
                Ok(RenRes::Err(k, l)) => rep.violation(
                    "deep:error",
                    J::obj().set("gates", J::u(n)).set("error", J::s(k)).set("lit", J::U(l)),
                ),
                Err(_) => rep.violation("deep:panic", J::obj().set("gates", J::u(n)).set("note", J::s("thread panicked"))),
            }
            return;
        }
        let size = match rng.below(20) {
            0 => 300,
            1..=4 => 40,
            _ => 10,
        };
        let mut g = gen_graph(rng, lt, size);
        rep.inc("graphs");
        if self.mode == "wellformed" && rng.chance(1, 4) {
            // gates defined through their odd literal (`7 = 2 & 4`: variable 3 is the NAND): legal in an
            // `Aig`, accepted by the ASCII parser; references of both polarities stay as generated
            let mut flipped = 0u64;
            for a in g.ands.iter_mut() {
                if rng.chance(1, 2) {
                    a.0 ^= 1;
                    flipped += 1;
                }
            }
            if flipped > 0 {
                rep.inc("graphs_with_gates_defined_by_an_odd_literal");
                rep.count("gates_defined_by_an_odd_literal", flipped);
            }
        }
        rep.inc(&format!("lit:{}", PK::Aag.lit_name(lt)));
        // every defined literal, both polarities, plus the constants
        let mut query: Vec<u64> = vec![0, 1];
        for &x in g.inputs.iter().chain(g.latches.iter().map(|l| &l.0)).chain(g.ands.iter().map(|a| &a.0)) {
            query.push(x);
            query.push(x ^ 1);
        }
        if self.mode == "illformed" {
            // exactly one defect, placed so that it is reachable from a root
            let kind = rng.below(8);
            let mut expect: &str = "";
            let mut desc = String::new();
            let gate_roots: Vec<usize> = (0..g.ands.len()).collect();
            match kind {
                0 | 1 if !g.ands.is_empty() => {
                    // combinational cycle: a gate (made a root) gets itself / a successor as input
                    let gi = gate_roots[rng.usize(gate_roots.len())];
                    let out = g.ands[gi].0;
                    let pol = rng.below(2);
                    // find a gate that uses `out` (directly); else self loop
                    let users: Vec<usize> = (0..g.ands.len()).filter(|&j| g.ands[j].1 >> 1 == out >> 1 || g.ands[j].2 >> 1 == out >> 1).collect();
                    if !users.is_empty() && kind == 1 {
                        // walk up to seven more users upwards: rings of 2..=9 gates
                        let mut uj = users[rng.usize(users.len())];
                        let mut ring = 2;
                        for _ in 0..rng.below(8) {
                            let o = g.ands[uj].0;
                            let up: Vec<usize> = (0..g.ands.len()).filter(|&j| j != gi && (g.ands[j].1 >> 1 == o >> 1 || g.ands[j].2 >> 1 == o >> 1)).collect();
                            if up.is_empty() {
                                break;
                            }
                            uj = up[rng.usize(up.len())];
                            ring += 1;
                        }
                        rep.inc(&format!("cycle_ring_of_up_to:{}", ring));
                        let uout = g.ands[uj].0;
                        if rng.chance(1, 2) {
                            g.ands[gi].1 = uout ^ pol;
                        } else {
                            g.ands[gi].2 = uout ^ pol;
                        }
                        desc = format!("gate {} now reads gate {} which reads it through {} gates (polarity {})", out, uout, ring - 2, pol);
                    } else {
                        if rng.chance(1, 2) {
                            g.ands[gi].1 = out ^ pol;
                        } else {
                            g.ands[gi].2 = out ^ pol;
                        }
                        desc = format!("gate {} reads itself (polarity {})", out, pol);
                    }
                    g.outputs.push(out ^ rng.below(2));
                    expect = "FoundCycle";
                }
                2 | 3 => {
                    // undefined literal, used by a root or by a gate that is a root
                    let used: std::collections::HashSet<u64> = g
                        .inputs
                        .iter()
                        .map(|x| x >> 1)
                        .chain(g.latches.iter().map(|l| l.0 >> 1))
                        .chain(g.ands.iter().map(|a| a.0 >> 1))
                        .collect();
                    let undef = (1..=g.m + 1).find(|v| !used.contains(v)).unwrap_or(g.m + 1);
                    if undef > (crate::gen::max_code(lt) - 1) / 2 {
                        rep.inc("illformed_skipped");
                        return;
                    }
                    g.m = g.m.max(undef);
                    let ulit = 2 * undef ^ rng.below(2);
                    if kind == 2 || g.ands.is_empty() {
                        g.outputs.push(ulit);
                        desc = format!("output refers to undefined literal {}", ulit);
                    } else {
                        let gi = rng.usize(g.ands.len());
                        g.ands[gi].1 = ulit;
                        let o = g.ands[gi].0;
                        g.outputs.push(o);
                        desc = format!("gate {} (an output) refers to undefined literal {}", o, ulit);
                    }
                    expect = "LitNotDefined";
                }
                _ => {
                    // doubly defined literal
                    let defs: Vec<(u8, usize)> = (0..g.inputs.len())
                        .map(|i| (b'i', i))
                        .chain((0..g.latches.len()).map(|i| (b'l', i)))
                        .chain((0..g.ands.len()).map(|i| (b'g', i)))
                        .collect();
                    if defs.is_empty() {
                        rep.inc("illformed_skipped");
                        return;
                    }
                    let (ka, ia) = defs[rng.usize(defs.len())];
                    let lit_of = |g: &Graph, k: u8, i: usize| match k {
                        b'i' => g.inputs[i],
                        b'l' => g.latches[i].0,
                        _ => g.ands[i].0,
                    };
                    // the other definition: another definition's literal, or a constant
                    let target = if rng.chance(1, 5) || defs.len() < 2 {
                        rng.below(2) // constant 0 / 1
                    } else {
                        let mut j = rng.usize(defs.len());
                        if defs[j] == (ka, ia) {
                            j = (j + 1) % defs.len();
                        }
                        lit_of(&g, defs[j].0, defs[j].1) ^ if rng.chance(1, 5) { 1 } else { 0 }
                    };
                    match ka {
                        b'i' => g.inputs[ia] = target,
                        b'l' => g.latches[ia].0 = target,
                        _ => g.ands[ia].0 = target,
                    }
                    desc = format!("definition {}{} now defines literal {} which is already defined", ka as char, ia, target);
                    expect = "LitAlreadyDefined";
                }
            }
            if expect.is_empty() {
                rep.inc("illformed_skipped");
                return;
            }
            rep.inc(&format!("defect:{}", expect));
            for opts in 0..8u8 {
                let res = sut(|| run(&g, lt, opts, &[]));
                rep.inc("renumberings");
                match res {
                    RenRes::Err(k, _) if k == expect => {
                        rep.inc("expected_errors_observed");
                    }
                    RenRes::Err(k, l) => {
                        // a redefinition changes what is reachable, so other structural errors can precede:
                        // only a *wrong circuit* or no error at all is the violation for redefinitions
                        rep.violation(
                            "illformed:kind",
                            J::obj()
                                .set("defect", J::s(desc.clone()))
                                .set("expected", J::s(expect))
                                .set("got", J::s(format!("{} (literal {})", k, l)))
                                .set("options(trim|hash|fold)", J::u(opts))
                                .set("graph", graph_json(&g)),
                        );
                        return;
                    }
                    RenRes::Ok(_) => {
                        rep.violation(
                            "illformed:accepted",
                            J::obj()
                                .set("defect", J::s(desc.clone()))
                                .set("expected", J::s(expect))
                                .set("got", J::s("Ok(circuit)"))
                                .set("options(trim|hash|fold)", J::u(opts))
                                .set("graph", graph_json(&g)),
                        );
                        return;
                    }
                }
            }
            rep.nontrivial(H::new().b(format!("{:?}", g).as_bytes()).get());
            rep.sample(|| J::obj().set("defect", J::s(desc.clone())).set("expected_error", J::s(expect)).set("graph", graph_json(&g)));
            return;
        }
        // well-formed
        let mut all_ok = true;
        for opts in 0..8u8 {
            let res = sut(|| run(&g, lt, opts, &query));
            rep.inc("renumberings");
            match res {
                RenRes::Err(k, l) => {
                    all_ok = false;
                    rep.violation(
                        "wellformed:error",
                        J::obj()
                            .set("error", J::s(format!("{} (literal {})", k, l)))
                            .set("options(trim|hash|fold)", J::u(opts))
                            .set("literal_type", J::s(PK::Aag.lit_name(lt)))
                            .set("graph", graph_json(&g)),
                    );
                    break;
                }
                RenRes::Ok(o) => {
                    rep.count("result_gates", o.ands.len() as u64);
                    if o.ands.len() < g.ands.len() {
                        rep.inc("results_with_fewer_gates");
                    }
                    let pr = check_ok(rng, &g, &o, self.rounds, rep);
                    if !pr.is_empty() {
                        all_ok = false;
                        rep.violation(
                            "wellformed:wrong",
                            J::obj()
                                .set("problems", J::A(pr.into_iter().take(4).map(J::s).collect()))
                                .set("options(trim|hash|fold)", J::u(opts))
                                .set("literal_type", J::s(PK::Aag.lit_name(lt)))
                                .set("graph", graph_json(&g))
                                .set("result_gates", J::s(format!("{:?}", &o.ands[..o.ands.len().min(60)])))
                                .set("result_outputs", J::s(format!("{:?}", o.outputs))),
                        );
                        break;
                    }
                }
            }
        }
        if all_ok && g.ands.len() >= 2 && !g.roots().is_empty() {
            rep.nontrivial(H::new().b(format!("{:?}", g).as_bytes()).get());
            if g.ands.len() >= 4 && g.ands.len() <= 12 {
                rep.sample(|| J::obj().set("graph", graph_json(&g)).set("options_checked", J::u(8u32)));
            }
        }
    }
}
