//! C13 - decimal scanning is exact for every integer width; fast equals simple.
//!
//! Events: (Option<I>, usize) returned by ascii_digits / signed_ascii_digits / ascii_digits_multi /
//! signed_ascii_digits_multi for all twelve integer types at offset o of a reader in which exactly a
//! chosen number of bytes is buffered, plus the reader position (must not move).
//! Oracle: longest digit run (optional '-' only if a digit follows); the value is decided by decimal
//! string comparison against the type's MIN/MAX strings - no machine arithmetic; Some(v) iff
//! representable with v exact; returned offset = end of the run; multi == simple.

use crate::json::{excerpt, J};
use crate::prng::{Rng, H};
use crate::src::{GenSrc, Policy, Src};
use crate::work::{sut, Monitor, Report};
use flussab::{text, DeferredReader};
use num_traits::{
    ops::overflowing::{OverflowingAdd, OverflowingMul, OverflowingSub},
    FromPrimitive, Zero,
};
use std::fmt::Display;
use std::rc::Rc;

pub const TYPES: [&str; 12] = [
    "i8", "i16", "i32", "i64", "i128", "isize", "u8", "u16", "u32", "u64", "u128", "usize",
];

pub fn type_min_max(t: usize) -> (String, String) {
    match t {
        0 => (i8::MIN.to_string(), i8::MAX.to_string()),
        1 => (i16::MIN.to_string(), i16::MAX.to_string()),
        2 => (i32::MIN.to_string(), i32::MAX.to_string()),
        3 => (i64::MIN.to_string(), i64::MAX.to_string()),
        4 => (i128::MIN.to_string(), i128::MAX.to_string()),
        5 => (isize::MIN.to_string(), isize::MAX.to_string()),
        6 => ("0".into(), u8::MAX.to_string()),
        7 => ("0".into(), u16::MAX.to_string()),
        8 => ("0".into(), u32::MAX.to_string()),
        9 => ("0".into(), u64::MAX.to_string()),
        10 => ("0".into(), u128::MAX.to_string()),
        _ => ("0".into(), usize::MAX.to_string()),
    }
}

/// compare two non-negative decimal strings without leading zeros
pub fn dec_le(a: &str, b: &str) -> bool {
    if a.len() != b.len() {
        a.len() < b.len()
    } else {
        a <= b
    }
}

pub fn strip_zeros(d: &[u8]) -> String {
    let mut i = 0;
    while i + 1 < d.len() && d[i] == b'0' {
        i += 1;
    }
    String::from_utf8_lossy(&d[i..]).to_string()
}

/// Reference: (canonical decimal text of the value if representable, end offset)
pub fn reference(signed_fn: bool, t: usize, s: &[u8], o: usize) -> (Option<String>, usize) {
    let at = |i: usize| s.get(i).copied();
    let mut start = o;
    let mut neg = false;
    if signed_fn && at(o) == Some(b'-') && matches!(at(o + 1), Some(b'0'..=b'9')) {
        neg = true;
        start = o + 1;
    }
    let mut end = start;
    while matches!(at(end), Some(b'0'..=b'9')) {
        end += 1;
    }
    if end == start {
        // no digits: value zero, nothing passed over
        return (Some("0".into()), o);
    }
    let mag = strip_zeros(&s[start..end]);
    let (min, max) = type_min_max(t);
    if mag == "0" {
        return (Some("0".into()), end);
    }
    if neg {
        let min_mag = min.trim_start_matches('-');
        if min != "0" && dec_le(&mag, min_mag) {
            (Some(format!("-{}", mag)), end)
        } else {
            (None, end)
        }
    } else if dec_le(&mag, &max) {
        (Some(mag), end)
    } else {
        (None, end)
    }
}

fn scan<I>(f: u8, r: &mut DeferredReader, o: usize) -> (Option<String>, usize)
where
    I: Display + Zero + FromPrimitive + OverflowingAdd + OverflowingSub + OverflowingMul,
{
    let (v, off): (Option<I>, usize) = match f {
        0 => text::ascii_digits(r, o),
        1 => text::signed_ascii_digits(r, o),
        2 => text::ascii_digits_multi(r, o),
        _ => text::signed_ascii_digits_multi(r, o),
    };
    (v.map(|x| x.to_string()), off)
}

pub const FN_NAMES: [&str; 4] = [
    "ascii_digits",
    "signed_ascii_digits",
    "ascii_digits_multi",
    "signed_ascii_digits_multi",
];

pub fn scan_t(t: usize, f: u8, r: &mut DeferredReader, o: usize) -> (Option<String>, usize) {
    match t {
        0 => scan::<i8>(f, r, o),
        1 => scan::<i16>(f, r, o),
        2 => scan::<i32>(f, r, o),
        3 => scan::<i64>(f, r, o),
        4 => scan::<i128>(f, r, o),
        5 => scan::<isize>(f, r, o),
        6 => scan::<u8>(f, r, o),
        7 => scan::<u16>(f, r, o),
        8 => scan::<u32>(f, r, o),
        9 => scan::<u64>(f, r, o),
        10 => scan::<u128>(f, r, o),
        _ => scan::<usize>(f, r, o),
    }
}

pub struct C13 {
    pub mode: String,
    pub kernel_len: usize,
}

/// Evaluate all four functions for type t on `s` at offset `o` with `b` bytes of `s` buffered, behind
/// a prefix of `stale` digits that was read and advanced over (so that stale digits sit behind the
/// valid window inside the reader's buffer).
fn eval(rep: &mut Report, t: usize, s: &[u8], o: usize, b: usize, stale: usize, fmask: u8) {
    eval_state(rep, t, s, o, b, stale, fmask, 0)
}

/// `state`: 0 = 1-byte reads, chunk 1, `b` bytes requested before the call; 1 = as 0 but the reader has
/// already seen the end of input (an earlier request went past it); 2 = everything arrived in one read
/// (chunk 16384) without the end having been seen; 3 = one read and the end seen; 4 = as 0 but the source
/// fails after the data; 5 = one read, the failure already seen (error pending in the reader)
fn eval_state(rep: &mut Report, t: usize, s: &[u8], o: usize, b: usize, stale: usize, fmask: u8, state: u8) {
    let mut stream = Vec::with_capacity(stale + s.len());
    for i in 0..stale {
        stream.push(b'1' + (i % 9) as u8);
    }
    stream.extend_from_slice(s);
    let data = Rc::new(stream);
    let mut results: [(Option<String>, usize); 4] = Default::default();
    for f in 0..4u8 {
        if fmask & (1 << f) == 0 {
            continue;
        }
        let one_read = state == 2 || state == 3 || state == 5;
        let mut src = Src::new(data.clone(), if one_read { Policy::OneShot } else { Policy::Fixed(1) }, 0);
        if state >= 4 {
            // the data ends in a source failure instead of a clean end: the error stays parked in the reader
            src = src.failing_at(data.len());
        }
        let mut r = DeferredReader::from_read(src.clone());
        r.set_chunk_size(if one_read { 16384 } else { 1 });
        let (got, pos0, pos1, blen) = sut(|| {
            if stale > 0 {
                r.request(stale);
                r.advance(stale);
            }
            r.request(b);
            if state == 1 || state == 3 || state == 5 {
                // look past the end once: the reader is complete from here on (state 5: with the
                // source's error pending)
                r.request(s.len() + 1);
            } else if state == 2 {
                r.request(1);
            }
            let blen = r.buf_len();
            let pos0 = r.position();
            let got = scan_t(t, f, &mut r, o);
            (got, pos0, r.position(), blen)
        });
        rep.inc("evals");
        let signed_fn = f & 1 == 1;
        let exp = reference(signed_fn, t, s, o);
        let mut bad = vec![];
        if got != exp {
            bad.push(format!("got {:?}, reference {:?}", got, exp));
        }
        if pos0 != pos1 {
            bad.push(format!("reader position moved {} -> {}", pos0, pos1));
        }
        if !bad.is_empty() {
            rep.violation(
                &format!("{}::<{}>", FN_NAMES[f as usize], TYPES[t]),
                J::obj()
                    .set("fn", J::s(FN_NAMES[f as usize]))
                    .set("type", J::s(TYPES[t]))
                    .set("input", J::bytes(s))
                    .set("offset", J::u(o))
                    .set("buffered_before_call", J::u(blen))
                    .set("stale_digit_prefix", J::u(stale))
                    .set(
                        "reader_state",
                        J::s(["1-byte reads", "1-byte reads, end of input already seen", "one read, end not seen", "one read, end of input already seen", "1-byte reads from a source that fails after the data", "one read, source failed after the data, error pending"][state as usize]),
                    )
                    .set("problems", J::A(bad.into_iter().map(J::s).collect())),
            );
        }
        results[f as usize] = got;
    }
    // multi == simple (implied by both == reference, recorded directly as well)
    if fmask == 0xf && (results[0] != results[2] || results[1] != results[3]) {
        rep.inc("multi_simple_differ");
    }
    let (_, end) = reference(true, t, s, o);
    if end > o {
        rep.inc("nontrivial_evals");
        rep.nontrivial(
            H::new()
                .b(s)
                .u(o as u64)
                .u(t as u64)
                .u(b as u64)
                .u(stale as u64)
                .u(state as u64)
                .get(),
        );
        if state == 1 || state == 3 {
            rep.inc("evals_on_reader_that_has_seen_the_end");
        }
        if state >= 4 {
            rep.inc("evals_with_a_source_that_fails_after_the_data");
        }
        if rep.want_sample() && end - o > 9 {
            rep.sample(|| {
                J::obj()
                    .set("type", J::s(TYPES[t]))
                    .set("input", J::s(excerpt(s, 80)))
                    .set("offset", J::u(o))
                    .set("buffered", J::u(b))
                    .set("stale_prefix", J::u(stale))
                    .set(
                        "results[simple,signed,multi,signed_multi]",
                        J::A(results
                            .iter()
                            .map(|(v, e)| J::s(format!("{:?}@{}", v, e)))
                            .collect()),
                    )
            });
        }
    }
}

fn boundary_strings(rng: &mut Rng, t: usize) -> Vec<u8> {
    let (min, max) = type_min_max(t);
    let base = match rng.below(12) {
        0 => max.clone(),
        1 => min.clone(),
        2 => inc_dec(&max),            // MAX+1
        3 => dec_dec(&max),            // MAX-1
        4 => {
            // MIN-1 (as magnitude+1) or "-1" for unsigned
            if min == "0" {
                "-1".into()
            } else {
                format!("-{}", inc_dec(min.trim_start_matches('-')))
            }
        }
        5 => {
            if min == "0" {
                "-0".into()
            } else {
                format!("-{}", dec_dec(min.trim_start_matches('-')))
            }
        }
        6 => {
            // 10^k +- 1
            let k = 1 + rng.usize(40);
            let mut s = "1".to_string();
            s.push_str(&"0".repeat(k));
            match rng.below(3) {
                0 => s,
                1 => inc_dec(&s),
                _ => dec_dec(&s),
            }
        }
        7 => {
            // digit count around the SWAR block sizes
            let k = *rng.pick(&[1usize, 6, 7, 8, 9, 10, 15, 16, 17, 18, 19, 20, 21, 38, 39, 40]);
            let mut s: String = (0..k).map(|_| (b'0' + rng.below(10) as u8) as char).collect();
            if rng.chance(1, 2) {
                s.replace_range(0..1, "9");
            }
            s
        }
        8 => {
            // max with one digit changed
            let mut b = max.clone().into_bytes();
            let i = rng.usize(b.len());
            b[i] = b'0' + rng.below(10) as u8;
            String::from_utf8(b).unwrap()
        }
        9 => {
            let k = 1 + rng.usize(60);
            (0..k).map(|_| (b'0' + rng.below(10) as u8) as char).collect()
        }
        10 => "-".to_string(),
        _ => max.clone() + &rng.below(10).to_string(),
    };
    let mut s = String::new();
    let (neg, digits) = match base.strip_prefix('-') {
        Some(d) => (true, d.to_string()),
        None => (rng.chance(1, 3), base.clone()),
    };
    if neg {
        s.push('-');
    }
    if rng.chance(1, 2) && !digits.is_empty() {
        s.push_str(&"0".repeat(rng.usize(31)));
    }
    s.push_str(&digits);
    let mut v = s.into_bytes();
    // terminator / tail
    match rng.below(6) {
        0 => {}
        1 => v.push(b' '),
        2 => v.extend_from_slice(b"\n12"),
        3 => v.push(*rng.pick(b"-/:+.,ax\x00\xff\t")),
        4 => v.extend_from_slice(b"-5"),
        _ => {
            v.push(b' ');
            for _ in 0..rng.usize(12) {
                v.push(b'0' + rng.below(10) as u8)
            }
        }
    }
    v
}

pub fn inc_dec(s: &str) -> String {
    let mut b = s.as_bytes().to_vec();
    let mut i = b.len();
    loop {
        if i == 0 {
            b.insert(0, b'1');
            break;
        }
        i -= 1;
        if b[i] == b'9' {
            b[i] = b'0';
        } else {
            b[i] += 1;
            break;
        }
    }
    String::from_utf8(b).unwrap()
}

pub fn dec_dec(s: &str) -> String {
    // s > 0
    let mut b = s.as_bytes().to_vec();
    let mut i = b.len();
    loop {
        if i == 0 {
            break;
        }
        i -= 1;
        if b[i] == b'0' {
            b[i] = b'9';
        } else {
            b[i] -= 1;
            break;
        }
    }
    strip_zeros(&b)
}

impl C13 {
    /// Exhaustive sweep through the public `_multi` functions with >= 8 bytes buffered:
    /// case idx = block of digit strings; all digit strings of length 0..=kernel_len.
    fn kernel_block(&mut self, idx: u64, rep: &mut Report) {
        // enumerate strings: length l, value n in 0..10^l; flatten index space in blocks of 10^5
        const BLOCK: u64 = 100_000;
        let mut lens = vec![];
        let mut total = 0u64;
        for l in 0..=self.kernel_len as u32 {
            lens.push((l, total));
            total += 10u64.pow(l);
        }
        let start = idx * BLOCK;
        if start >= total {
            return;
        }
        let end = (start + BLOCK).min(total);
        // generate on the fly: each record = [optional '-'] digits terminator, terminator cycles
        let terms: &[u8] = b" \n\t-:/a\x00\xff";
        let lens2 = lens.clone();
        let mut cur = start;
        let recs = Rc::new(std::cell::RefCell::new(std::collections::VecDeque::new()));
        let recs2 = recs.clone();
        let refill = move |out: &mut Vec<u8>| -> bool {
            while out.len() < 32 * 1024 && cur < end {
                let (l, base) = *lens2.iter().rev().find(|(_, b)| *b <= cur).unwrap();
                let n = cur - base;
                for neg in [false, true] {
                    let term = terms[((cur as usize) + neg as usize) % terms.len()];
                    if neg {
                        out.push(b'-');
                    }
                    if l > 0 {
                        let s = format!("{:0width$}", n, width = l as usize);
                        out.extend_from_slice(s.as_bytes());
                    }
                    out.push(term);
                    recs2.borrow_mut().push_back((l, n, neg, term));
                }
                cur += 1;
            }
            if cur >= end {
                // padding so that the last records still see >= 8 buffered bytes
                out.extend_from_slice(b"        ");
                false
            } else {
                true
            }
        };
        let src = GenSrc {
            refill,
            pending: vec![],
            pos: 0,
            read_size: usize::MAX,
            delivered: 0,
            done: false,
            calls: Rc::new(std::cell::Cell::new(0)),
        };
        let mut r = DeferredReader::from_read(src);
        r.set_chunk_size(64 * 1024);
        loop {
            sut(|| r.request(64));
            let rec = recs.borrow_mut().pop_front();
            let Some((l, n, neg, term)) = rec else { break };
            if r.buf_len() < 9 + l as usize {
                rep.inc("harness_short_buffer");
                break;
            }
            let reclen = l as usize + neg as usize + 1;
            let digits_val = if l == 0 { None } else { Some(n) };
            // expected through i64/u64 (every <= 8 digit number fits)
            let fast = r.buf_len() >= 8;
            for (t, f) in [(3usize, 3u8), (9usize, 3u8), (9usize, 2u8), (2usize, 3u8), (8usize, 2u8)] {
                let got = sut(|| scan_t(t, f, &mut r, 0));
                rep.inc("kernel_evals");
                let signed_fn = f == 3;
                let exp: (Option<String>, usize) = match (neg, digits_val) {
                    (false, None) => (Some("0".into()), 0),
                    (false, Some(v)) => (Some(v.to_string()), l as usize),
                    (true, None) => (Some("0".into()), 0),
                    (true, Some(v)) => {
                        if !signed_fn {
                            (Some("0".into()), 0)
                        } else if v == 0 {
                            (Some("0".into()), 1 + l as usize)
                        } else if t >= 6 {
                            (None, 1 + l as usize)
                        } else {
                            (Some(format!("-{}", v)), 1 + l as usize)
                        }
                    }
                };
                if got != exp {
                    rep.violation(
                        &format!("kernel:{}::<{}>", FN_NAMES[f as usize], TYPES[t]),
                        J::obj()
                            .set("fn", J::s(FN_NAMES[f as usize]))
                            .set("type", J::s(TYPES[t]))
                            .set("input", J::s(excerpt(&r.buf()[..reclen.min(r.buf_len())], 20)))
                            .set("terminator", J::u(term))
                            .set("fast_path", J::B(fast))
                            .set("got", J::s(format!("{:?}", got)))
                            .set("expected", J::s(format!("{:?}", exp))),
                    );
                }
            }
            if l >= 2 {
                rep.inc("nontrivial_evals");
                if rep.hashes.len() < 100_000 {
                    rep.nontrivial(H::new().u(l as u64).u(n).u(neg as u64).get());
                }
            }
            sut(|| r.advance(reclen));
        }
    }

    /// every lane x every terminator byte: k digits, then byte t, then digits again
    fn lanes(&mut self, idx: u64, rep: &mut Report) {
        let k = (idx % 9) as usize; // digits before the terminator (0..=8)
        let neg = (idx / 9) % 2 == 1;
        let variant = idx / 18;
        for term in 0..=255u8 {
            let mut s = vec![];
            if neg {
                s.push(b'-');
            }
            for i in 0..k {
                s.push(b'0' + ((i as u64 * 7 + variant + 1) % 10) as u8);
            }
            s.push(term);
            s.extend_from_slice(b"98765432109876");
            for &t in &[2usize, 3, 8, 9, 0, 6] {
                // fully buffered (fast path) and barely buffered (cold path)
                eval(rep, t, &s, 0, s.len(), 0, 0xf);
                eval(rep, t, &s, 0, (k + neg as usize).min(7), 24, 0xc);
                eval_state(rep, t, &s, 0, 0, 0, 0xf, 3);
            }
        }
    }
}

impl Monitor for C13 {
    fn case(&mut self, idx: u64, rng: &mut Rng, rep: &mut Report) {
        match self.mode.as_str() {
            "kernel" => self.kernel_block(idx, rep),
            "lanes" => self.lanes(idx, rep),
            _ => {
                let t = (idx % 12) as usize;
                let s = if rng.chance(3, 4) {
                    boundary_strings(rng, t)
                } else {
                    // random bytes biased to digits and '-'
                    let n = rng.usize(40);
                    (0..n)
                        .map(|_| match rng.below(10) {
                            0 => b'-',
                            1 => rng.next() as u8,
                            2 => *rng.pick(b" \n\t"),
                            _ => b'0' + rng.below(10) as u8,
                        })
                        .collect()
                };
                // prefix so that the scan does not start at stream offset 0
                let lead = if rng.chance(1, 3) { rng.usize(13) } else { 0 };
                let mut full: Vec<u8> = (0..lead).map(|_| *rng.pick(b" x-7")).collect();
                full.extend_from_slice(&s);
                let o = lead;
                rep.inc("inputs");
                // all amounts of buffered data 0..=24 beyond o (and fully buffered)
                let stale = *rng.pick(&[0usize, 0, 24, 40]);
                let bmax = (o + 24).min(full.len());
                if rng.chance(1, 3) {
                    for b in 0..=bmax {
                        eval(rep, t, &full, o, b, stale, 0xf);
                    }
                } else {
                    for _ in 0..3 {
                        let b = rng.usize(bmax + 1);
                        eval(rep, t, &full, o, b, stale, 0xf);
                    }
                }
                eval(rep, t, &full, o, full.len(), stale, 0xf);
                // scan positions at the top of the usize range (nothing is there: value 0, offset unchanged),
                // with the data fully buffered so that a fast path would be eligible by amount
                if rng.chance(1, 16) {
                    for k in [0usize, 1, 3, 7, 8, 9, 15, 16] {
                        for state in [0u8, 2, 3] {
                            eval_state(rep, t, &full, usize::MAX - k, full.len(), stale, 0xf, state);
                        }
                        rep.inc("evals_at_offsets_near_usize_max");
                    }
                }
                // the other reader states: end of input already seen / everything from one read
                for state in 1..6u8 {
                    let b = if state == 1 || state == 4 { rng.usize(bmax + 1) } else { 0 };
                    eval_state(rep, t, &full, o, b, stale, 0xf, state);
                }
            }
        }
    }
    fn panic_is_violation(&self) -> bool {
        true
    }
}
