//! C15 - parser combinators implement exact three-way choice semantics.
//!
//! The domain is finite: every combinator x every receiver case x every return case of the closure
//! passed in. Each cell is executed against the real `flussab::Parsed` / `ResultExt` code and
//! compared with a specification table written from the documentation (not from the code):
//!   * an alternative runs iff the receiver is Fallthrough;
//!   * a continuation runs iff the receiver is Res(Ok) and receives the value; its failure is
//!     committed (Res(Err)), never Fallthrough;
//!   * and_also / and_do keep the (possibly mutated) original value;
//!   * map / map_err / err_into touch only the case they name;
//!   * or_give_up -> supplied error, optional -> None, matches -> false on Fallthrough.
//! Observed per cell: the returned value (values carry identity tags), the number of times the
//! closure was invoked and the argument it received.

use crate::json::J;
use crate::prng::{Rng, H};
use crate::work::{Monitor, Report};
use flussab::{Parsed, ResultExt};
use std::cell::Cell;
use Parsed::{Fallthrough, Res};

thread_local! {
    static FROM_CALLS: Cell<u32> = const { Cell::new(0) };
}

#[derive(Clone, Copy, Debug, PartialEq, Eq)]
enum Recv {
    Fall,
    Ok,
    Err,
}

fn show<A: std::fmt::Debug, B: std::fmt::Debug>(p: &Parsed<A, B>) -> String {
    match p {
        Fallthrough => "Fallthrough".into(),
        Res(Ok(v)) => format!("Res(Ok({:?}))", v),
        Res(Err(e)) => format!("Res(Err({:?}))", e),
    }
}

fn show_r<A: std::fmt::Debug, B: std::fmt::Debug>(p: &Result<A, B>) -> String {
    match p {
        Ok(v) => format!("Ok({:?})", v),
        Err(e) => format!("Err({:?})", e),
    }
}

#[derive(Debug, PartialEq, Eq, Clone)]
struct Obs {
    result: String,
    calls: u32,
    arg: String,
}

struct Cell15 {
    name: String,
    observed: Obs,
    expected: Obs,
}

fn obs(result: String, calls: u32, arg: String) -> Obs {
    Obs { result, calls, arg }
}

/// What rides along inside the value / error types of one instantiation ("shape"): generic code can
/// only differ between instantiations through type intrinsics (size, alignment, drop glue, niches).
trait Pad: Clone + PartialEq {
    fn mk(role: u64) -> Self;
    fn intact(&self, role: u64) -> bool {
        *self == Self::mk(role)
    }
}
impl Pad for () {
    fn mk(_: u64) {}
}
impl<const N: usize> Pad for [u64; N] {
    fn mk(role: u64) -> Self {
        let mut a = [0u64; N];
        for (i, x) in a.iter_mut().enumerate() {
            *x = role.wrapping_mul(0x9e37_79b9_7f4a_7c15).wrapping_add(i as u64);
        }
        a
    }
}
impl Pad for String {
    fn mk(role: u64) -> Self {
        format!("payload of role {} that lives on the heap and has drop glue", role)
    }
}
impl Pad for Box<u8> {
    fn mk(role: u64) -> Self {
        Box::new(role as u8)
    }
}
impl Pad for u64 {
    fn mk(role: u64) -> Self {
        role.wrapping_mul(0x9e37_79b9_7f4a_7c15) | 1
    }
}
impl Pad for u128 {
    fn mk(role: u64) -> Self {
        ((role as u128) << 100) | 0x1234_5678_9abc_def0_1122_3344
    }
}
/// over-aligned payload (what SIMD types or cache-line padded values look like)
#[derive(Clone, PartialEq)]
#[repr(align(64))]
struct Align64(u8);
impl Pad for Align64 {
    fn mk(role: u64) -> Self {
        Align64(role as u8 ^ 0x5a)
    }
}
impl Pad for (u8, u16) {
    fn mk(role: u64) -> Self {
        (role as u8, 0xbeef)
    }
}

macro_rules! shape {
    // same payload in all four types
    ($m:ident, $label:expr, $P:ty) => {
        shape!($m, $label, $P, $P, $P);
    };
    // payload of T and E, of U (the type map / and_then convert to) and of E2 (the type err_into /
    // map_err convert to): conversions that widen, narrow or keep the size
    ($m:ident, $label:expr, $P:ty, $PU:ty, $PE2:ty) => {
        mod $m {
            use super::*;
            const LABEL: &str = $label;

            macro_rules! tagged {
                ($name:ident, $role:expr, $pad:ty) => {
                    #[derive(Clone, PartialEq)]
                    pub(super) struct $name(pub u32, pub $pad);
                    impl $name {
                        pub(super) fn mk(tag: u32) -> $name {
                            $name(tag, <$pad as Pad>::mk($role))
                        }
                    }
                    impl std::fmt::Debug for $name {
                        fn fmt(&self, f: &mut std::fmt::Formatter<'_>) -> std::fmt::Result {
                            if self.1.intact($role) {
                                write!(f, "{}({})", stringify!($name), self.0)
                            } else {
                                write!(f, "{}({})!payload-corrupted", stringify!($name), self.0)
                            }
                        }
                    }
                };
            }
            tagged!(T, 1, $P);
            tagged!(U, 2, $PU);
            tagged!(E, 3, $P);
            tagged!(E2, 4, $PE2);

            impl From<E> for E2 {
                fn from(e: E) -> E2 {
                    FROM_CALLS.with(|c| c.set(c.get() + 1));
                    E2::mk(e.0 + 1000)
                }
            }

            fn recv(r: Recv) -> Parsed<T, E> {
                match r {
                    Recv::Fall => Fallthrough,
                    Recv::Ok => Res(Ok(T::mk(11))),
                    Recv::Err => Res(Err(E::mk(21))),
                }
            }

            pub(super) fn sizes() -> (usize, usize) {
                (std::mem::size_of::<Parsed<T, E>>(), std::mem::align_of::<Parsed<T, E>>())
            }
            pub(super) fn conv_sizes() -> [usize; 4] {
                [
                    std::mem::size_of::<T>(),
                    std::mem::size_of::<U>(),
                    std::mem::size_of::<E>(),
                    std::mem::size_of::<E2>(),
                ]
            }

            pub(super) fn cells() -> Vec<Cell15> {
                let mut out = vec![];
                let recvs = [Recv::Fall, Recv::Ok, Recv::Err];
                let mut push = |name: String, observed: Obs, expected: Obs| {
                    out.push(Cell15 {
                        name: format!("{}{}", LABEL, name),
                        observed,
                        expected,
                    })
                };

                for &r in &recvs {
                    // ---- err_into
                    {
                        FROM_CALLS.with(|c| c.set(0));
                        let got: Parsed<T, E2> = recv(r).err_into();
                        let calls = FROM_CALLS.with(|c| c.get());
                        let exp = match r {
                            Recv::Fall => obs("Fallthrough".into(), 0, "".into()),
                            Recv::Ok => obs("Res(Ok(T(11)))".into(), 0, "".into()),
                            Recv::Err => obs("Res(Err(E2(1021)))".into(), 1, "".into()),
                        };
                        push(
                            format!("Parsed::err_into/{:?}", r),
                            obs(show(&got), calls, "".into()),
                            exp,
                        );
                    }
                    // ---- or_give_up
                    {
                        let calls = Cell::new(0);
                        let got = recv(r).or_give_up(|| {
                            calls.set(calls.get() + 1);
                            E::mk(99)
                        });
                        let exp = match r {
                            Recv::Fall => obs("Err(E(99))".into(), 1, "".into()),
                            Recv::Ok => obs("Ok(T(11))".into(), 0, "".into()),
                            Recv::Err => obs("Err(E(21))".into(), 0, "".into()),
                        };
                        push(
                            format!("or_give_up/{:?}", r),
                            obs(show_r(&got), calls.get(), "".into()),
                            exp,
                        );
                    }
                    // ---- or_give_up with a constructor that captures nothing (zero-sized closure): its
                    // invocations are counted in a thread-local instead of a captured cell
                    {
                        FROM_CALLS.with(|c| c.set(0));
                        let got = recv(r).or_give_up(|| {
                            FROM_CALLS.with(|c| c.set(c.get() + 1));
                            E::mk(99)
                        });
                        let calls = FROM_CALLS.with(|c| c.get());
                        let exp = match r {
                            Recv::Fall => obs("Err(E(99))".into(), 1, "".into()),
                            Recv::Ok => obs("Ok(T(11))".into(), 0, "".into()),
                            Recv::Err => obs("Err(E(21))".into(), 0, "".into()),
                        };
                        push(
                            format!("or_give_up(zero-sized constructor)/{:?}", r),
                            obs(show_r(&got), calls, "".into()),
                            exp,
                        );
                    }
                    // ---- optional
                    {
                        let got = recv(r).optional();
                        let exp = match r {
                            Recv::Fall => "Ok(None)",
                            Recv::Ok => "Ok(Some(T(11)))",
                            Recv::Err => "Err(E(21))",
                        };
                        push(
                            format!("optional/{:?}", r),
                            obs(show_r(&got), 0, "".into()),
                            obs(exp.into(), 0, "".into()),
                        );
                    }
                    // ---- matches
                    {
                        let got = recv(r).matches();
                        let exp = match r {
                            Recv::Fall => "Ok(false)",
                            Recv::Ok => "Ok(true)",
                            Recv::Err => "Err(E(21))",
                        };
                        push(
                            format!("matches/{:?}", r),
                            obs(show_r(&got), 0, "".into()),
                            obs(exp.into(), 0, "".into()),
                        );
                    }
                    // ---- or_parse: alternative returns each of the three cases
                    for &alt in &recvs {
                        let calls = Cell::new(0);
                        let altv = |a: Recv| -> Parsed<T, E> {
                            match a {
                                Recv::Fall => Fallthrough,
                                Recv::Ok => Res(Ok(T::mk(12))),
                                Recv::Err => Res(Err(E::mk(22))),
                            }
                        };
                        let got = recv(r).or_parse(|| {
                            calls.set(calls.get() + 1);
                            altv(alt)
                        });
                        let exp = match r {
                            Recv::Fall => obs(show(&altv(alt)), 1, "".into()),
                            Recv::Ok => obs("Res(Ok(T(11)))".into(), 0, "".into()),
                            Recv::Err => obs("Res(Err(E(21)))".into(), 0, "".into()),
                        };
                        push(
                            format!("or_parse/{:?}/alt={:?}", r, alt),
                            obs(show(&got), calls.get(), "".into()),
                            exp,
                        );
                    }
                    // ---- or_always_parse
                    for &alt_ok in &[true, false] {
                        let calls = Cell::new(0);
                        let altv = |ok: bool| -> Result<T, E> {
                            if ok {
                                Ok(T::mk(12))
                            } else {
                                Err(E::mk(22))
                            }
                        };
                        let got = recv(r).or_always_parse(|| {
                            calls.set(calls.get() + 1);
                            altv(alt_ok)
                        });
                        let exp = match r {
                            Recv::Fall => obs(show_r(&altv(alt_ok)), 1, "".into()),
                            Recv::Ok => obs("Ok(T(11))".into(), 0, "".into()),
                            Recv::Err => obs("Err(E(21))".into(), 0, "".into()),
                        };
                        push(
                            format!("or_always_parse/{:?}/alt_ok={}", r, alt_ok),
                            obs(show_r(&got), calls.get(), "".into()),
                            exp,
                        );
                    }
                    // ---- and_then
                    for &cont_ok in &[true, false] {
                        let calls = Cell::new(0);
                        let arg = Cell::new(None);
                        let got: Parsed<U, E> = recv(r).and_then(|t| {
                            calls.set(calls.get() + 1);
                            arg.set(Some(t.clone()));
                            if cont_ok {
                                Ok(U::mk(t.0 + 100))
                            } else {
                                Err(E::mk(23))
                            }
                        });
                        let exp = match r {
                            Recv::Fall => obs("Fallthrough".into(), 0, "None".into()),
                            Recv::Ok => obs(
                                if cont_ok {
                                    "Res(Ok(U(111)))".into()
                                } else {
                                    "Res(Err(E(23)))".into()
                                },
                                1,
                                "Some(T(11))".into(),
                            ),
                            Recv::Err => obs("Res(Err(E(21)))".into(), 0, "None".into()),
                        };
                        push(
                            format!("and_then/{:?}/cont_ok={}", r, cont_ok),
                            obs(show(&got), calls.get(), format!("{:?}", arg.take())),
                            exp,
                        );
                    }
                    // ---- and_also: continuation may mutate and may fail
                    for &cont_ok in &[true, false] {
                        for &mutate in &[true, false] {
                            let calls = Cell::new(0);
                            let arg = Cell::new(None);
                            let got = recv(r).and_also(|t| {
                                calls.set(calls.get() + 1);
                                arg.set(Some(t.clone()));
                                if mutate {
                                    t.0 += 500;
                                }
                                if cont_ok {
                                    Ok(())
                                } else {
                                    Err(E::mk(24))
                                }
                            });
                            let exp = match r {
                                Recv::Fall => obs("Fallthrough".into(), 0, "None".into()),
                                Recv::Ok => obs(
                                    match (cont_ok, mutate) {
                                        (true, true) => "Res(Ok(T(511)))".into(),
                                        (true, false) => "Res(Ok(T(11)))".into(),
                                        (false, _) => "Res(Err(E(24)))".into(),
                                    },
                                    1,
                                    "Some(T(11))".into(),
                                ),
                                Recv::Err => obs("Res(Err(E(21)))".into(), 0, "None".into()),
                            };
                            push(
                                format!(
                                    "and_also/{:?}/cont_ok={}/mutate={}",
                                    r, cont_ok, mutate
                                ),
                                obs(show(&got), calls.get(), format!("{:?}", arg.take())),
                                exp,
                            );
                        }
                    }
                    // ---- and_do
                    for &mutate in &[true, false] {
                        let calls = Cell::new(0);
                        let arg = Cell::new(None);
                        let got = recv(r).and_do(|t| {
                            calls.set(calls.get() + 1);
                            arg.set(Some(t.clone()));
                            if mutate {
                                t.0 += 500;
                            }
                        });
                        let exp = match r {
                            Recv::Fall => obs("Fallthrough".into(), 0, "None".into()),
                            Recv::Ok => obs(
                                if mutate {
                                    "Res(Ok(T(511)))".into()
                                } else {
                                    "Res(Ok(T(11)))".into()
                                },
                                1,
                                "Some(T(11))".into(),
                            ),
                            Recv::Err => obs("Res(Err(E(21)))".into(), 0, "None".into()),
                        };
                        push(
                            format!("and_do/{:?}/mutate={}", r, mutate),
                            obs(show(&got), calls.get(), format!("{:?}", arg.take())),
                            exp,
                        );
                    }
                    // ---- map
                    {
                        let calls = Cell::new(0);
                        let arg = Cell::new(None);
                        let got: Parsed<U, E> = recv(r).map(|t| {
                            calls.set(calls.get() + 1);
                            arg.set(Some(t.clone()));
                            U::mk(t.0 + 200)
                        });
                        let exp = match r {
                            Recv::Fall => obs("Fallthrough".into(), 0, "None".into()),
                            Recv::Ok => obs("Res(Ok(U(211)))".into(), 1, "Some(T(11))".into()),
                            Recv::Err => obs("Res(Err(E(21)))".into(), 0, "None".into()),
                        };
                        push(
                            format!("map/{:?}", r),
                            obs(show(&got), calls.get(), format!("{:?}", arg.take())),
                            exp,
                        );
                    }
                    // ---- map_err
                    {
                        let calls = Cell::new(0);
                        let arg = Cell::new(None);
                        let got: Parsed<T, E2> = recv(r).map_err(|e| {
                            calls.set(calls.get() + 1);
                            arg.set(Some(e.clone()));
                            E2::mk(e.0 + 300)
                        });
                        let exp = match r {
                            Recv::Fall => obs("Fallthrough".into(), 0, "None".into()),
                            Recv::Ok => obs("Res(Ok(T(11)))".into(), 0, "None".into()),
                            Recv::Err => obs("Res(Err(E2(321)))".into(), 1, "Some(E(21))".into()),
                        };
                        push(
                            format!("map_err/{:?}", r),
                            obs(show(&got), calls.get(), format!("{:?}", arg.take())),
                            exp,
                        );
                    }
                }

                // ---- the same invocation rules with a zero-sized value type (what delimiter parsers return): only the
                // closure's invocation count is observable there
                for &r in &recvs {
                    let zrecv = |r: Recv| -> Parsed<(), E> {
                        match r {
                            Recv::Fall => Fallthrough,
                            Recv::Ok => Res(Ok(())),
                            Recv::Err => Res(Err(E::mk(21))),
                        }
                    };
                    let want_calls = if r == Recv::Ok { 1 } else { 0 };
                    let want = |r: Recv| match r {
                        Recv::Fall => "Fallthrough".to_string(),
                        Recv::Ok => "Res(Ok(()))".to_string(),
                        Recv::Err => "Res(Err(E(21)))".to_string(),
                    };
                    {
                        let calls = Cell::new(0);
                        let got = zrecv(r).and_do(|_| calls.set(calls.get() + 1));
                        push(format!("zst:and_do/{:?}", r), obs(show(&got), calls.get(), "".into()), obs(want(r), want_calls, "".into()));
                    }
                    {
                        let calls = Cell::new(0);
                        let got = zrecv(r).and_also(|_| {
                            calls.set(calls.get() + 1);
                            Ok(())
                        });
                        push(format!("zst:and_also/{:?}", r), obs(show(&got), calls.get(), "".into()), obs(want(r), want_calls, "".into()));
                    }
                    {
                        let calls = Cell::new(0);
                        let got: Parsed<(), E> = zrecv(r).and_then(|_| {
                            calls.set(calls.get() + 1);
                            Ok(())
                        });
                        push(format!("zst:and_then/{:?}", r), obs(show(&got), calls.get(), "".into()), obs(want(r), want_calls, "".into()));
                    }
                    {
                        let calls = Cell::new(0);
                        let got: Parsed<(), E> = zrecv(r).map(|_| {
                            calls.set(calls.get() + 1);
                        });
                        push(format!("zst:map/{:?}", r), obs(show(&got), calls.get(), "".into()), obs(want(r), want_calls, "".into()));
                    }
                    {
                        let calls = Cell::new(0);
                        let got = zrecv(r).or_parse(|| {
                            calls.set(calls.get() + 1);
                            Res(Ok(()))
                        });
                        let exp = if r == Recv::Fall { "Res(Ok(()))".to_string() } else { want(r) };
                        push(
                            format!("zst:or_parse/{:?}", r),
                            obs(show(&got), calls.get(), "".into()),
                            obs(exp, if r == Recv::Fall { 1 } else { 0 }, "".into()),
                        );
                    }
                }
                for &ok in &[true, false] {
                    let zres = |ok: bool| -> Result<(), E> {
                        if ok {
                            Ok(())
                        } else {
                            Err(E::mk(21))
                        }
                    };
                    let want = if ok { "Ok(())" } else { "Err(E(21))" };
                    {
                        let calls = Cell::new(0);
                        let got = ResultExt::and_do(zres(ok), |_: &mut ()| calls.set(calls.get() + 1));
                        push(
                            format!("zst:ResultExt::and_do/ok={}", ok),
                            obs(show_r(&got), calls.get(), "".into()),
                            obs(want.into(), ok as u32, "".into()),
                        );
                    }
                    {
                        let calls = Cell::new(0);
                        let got = ResultExt::and_also(zres(ok), |_: &mut ()| {
                            calls.set(calls.get() + 1);
                            Ok(())
                        });
                        push(
                            format!("zst:ResultExt::and_also/ok={}", ok),
                            obs(show_r(&got), calls.get(), "".into()),
                            obs(want.into(), ok as u32, "".into()),
                        );
                    }
                }

                // ---- the closure-taking combinators once more with a callable that captures 320 bytes by
                // value (closures of recursive-descent parsers carry their context): same table rows
                for &r in &recvs {
                    let big = [0u64; 40];
                    let want_ok_calls = if r == Recv::Ok { 1 } else { 0 };
                    {
                        let calls = Cell::new(0);
                        let got: Parsed<U, E> = recv(r).map(move |t| {
                            let z = std::hint::black_box(&big)[7] as u32;
                            U::mk(t.0 + 200 + z)
                        });
                        let _ = &calls;
                        let exp = match r {
                            Recv::Fall => "Fallthrough",
                            Recv::Ok => "Res(Ok(U(211)))",
                            Recv::Err => "Res(Err(E(21)))",
                        };
                        push(format!("bigclosure:map/{:?}", r), obs(show(&got), 0, "".into()), obs(exp.into(), 0, "".into()));
                    }
                    {
                        let calls = Cell::new(0);
                        let c = &calls;
                        let got: Parsed<T, E2> = recv(r).map_err(move |e| {
                            c.set(c.get() + 1);
                            let z = std::hint::black_box(&big)[9] as u32;
                            E2::mk(e.0 + 300 + z)
                        });
                        let exp = match r {
                            Recv::Fall => "Fallthrough",
                            Recv::Ok => "Res(Ok(T(11)))",
                            Recv::Err => "Res(Err(E2(321)))",
                        };
                        push(
                            format!("bigclosure:map_err/{:?}", r),
                            obs(show(&got), calls.get(), "".into()),
                            obs(exp.into(), if r == Recv::Err { 1 } else { 0 }, "".into()),
                        );
                    }
                    for &cont_ok in &[true, false] {
                        let calls = Cell::new(0);
                        let c = &calls;
                        let got: Parsed<U, E> = recv(r).and_then(move |t| {
                            c.set(c.get() + 1);
                            let z = std::hint::black_box(&big)[1] as u32;
                            if cont_ok {
                                Ok(U::mk(t.0 + 100 + z))
                            } else {
                                Err(E::mk(23 + z))
                            }
                        });
                        let exp = match (r, cont_ok) {
                            (Recv::Fall, _) => "Fallthrough",
                            (Recv::Ok, true) => "Res(Ok(U(111)))",
                            (Recv::Ok, false) => "Res(Err(E(23)))",
                            (Recv::Err, _) => "Res(Err(E(21)))",
                        };
                        push(
                            format!("bigclosure:and_then/{:?}/cont_ok={}", r, cont_ok),
                            obs(show(&got), calls.get(), "".into()),
                            obs(exp.into(), want_ok_calls, "".into()),
                        );
                    }
                    for &cont_ok in &[true, false] {
                        let calls = Cell::new(0);
                        let c = &calls;
                        let got = recv(r).and_also(move |t| {
                            c.set(c.get() + 1);
                            let z = std::hint::black_box(&big)[2] as u32;
                            t.0 += 500 + z;
                            if cont_ok {
                                Ok(())
                            } else {
                                Err(E::mk(24 + z))
                            }
                        });
                        let exp = match (r, cont_ok) {
                            (Recv::Fall, _) => "Fallthrough",
                            (Recv::Ok, true) => "Res(Ok(T(511)))",
                            (Recv::Ok, false) => "Res(Err(E(24)))",
                            (Recv::Err, _) => "Res(Err(E(21)))",
                        };
                        push(
                            format!("bigclosure:and_also/{:?}/cont_ok={}", r, cont_ok),
                            obs(show(&got), calls.get(), "".into()),
                            obs(exp.into(), want_ok_calls, "".into()),
                        );
                    }
                    {
                        let calls = Cell::new(0);
                        let c = &calls;
                        let got = recv(r).and_do(move |t| {
                            c.set(c.get() + 1);
                            t.0 += 500 + std::hint::black_box(&big)[3] as u32;
                        });
                        let exp = match r {
                            Recv::Fall => "Fallthrough",
                            Recv::Ok => "Res(Ok(T(511)))",
                            Recv::Err => "Res(Err(E(21)))",
                        };
                        push(
                            format!("bigclosure:and_do/{:?}", r),
                            obs(show(&got), calls.get(), "".into()),
                            obs(exp.into(), want_ok_calls, "".into()),
                        );
                    }
                    for &alt in &recvs {
                        let calls = Cell::new(0);
                        let c = &calls;
                        let got = recv(r).or_parse(move || {
                            c.set(c.get() + 1);
                            let z = std::hint::black_box(&big)[4] as u32;
                            match alt {
                                Recv::Fall => Fallthrough,
                                Recv::Ok => Res(Ok(T::mk(12 + z))),
                                Recv::Err => Res(Err(E::mk(22 + z))),
                            }
                        });
                        let exp = match (r, alt) {
                            (Recv::Fall, Recv::Fall) => "Fallthrough",
                            (Recv::Fall, Recv::Ok) => "Res(Ok(T(12)))",
                            (Recv::Fall, Recv::Err) => "Res(Err(E(22)))",
                            (Recv::Ok, _) => "Res(Ok(T(11)))",
                            (Recv::Err, _) => "Res(Err(E(21)))",
                        };
                        push(
                            format!("bigclosure:or_parse/{:?}/alt={:?}", r, alt),
                            obs(show(&got), calls.get(), "".into()),
                            obs(exp.into(), if r == Recv::Fall { 1 } else { 0 }, "".into()),
                        );
                    }
                    for &alt_ok in &[true, false] {
                        let calls = Cell::new(0);
                        let c = &calls;
                        let got = recv(r).or_always_parse(move || {
                            c.set(c.get() + 1);
                            let z = std::hint::black_box(&big)[5] as u32;
                            if alt_ok {
                                Ok(T::mk(12 + z))
                            } else {
                                Err(E::mk(22 + z))
                            }
                        });
                        let exp = match (r, alt_ok) {
                            (Recv::Fall, true) => "Ok(T(12))",
                            (Recv::Fall, false) => "Err(E(22))",
                            (Recv::Ok, _) => "Ok(T(11))",
                            (Recv::Err, _) => "Err(E(21))",
                        };
                        push(
                            format!("bigclosure:or_always_parse/{:?}/alt_ok={}", r, alt_ok),
                            obs(show_r(&got), calls.get(), "".into()),
                            obs(exp.into(), if r == Recv::Fall { 1 } else { 0 }, "".into()),
                        );
                    }
                    {
                        let calls = Cell::new(0);
                        let c = &calls;
                        let got = recv(r).or_give_up(move || {
                            c.set(c.get() + 1);
                            E::mk(99 + std::hint::black_box(&big)[6] as u32)
                        });
                        let exp = match r {
                            Recv::Fall => "Err(E(99))",
                            Recv::Ok => "Ok(T(11))",
                            Recv::Err => "Err(E(21))",
                        };
                        push(
                            format!("bigclosure:or_give_up/{:?}", r),
                            obs(show_r(&got), calls.get(), "".into()),
                            obs(exp.into(), if r == Recv::Fall { 1 } else { 0 }, "".into()),
                        );
                    }
                }

                // ---- combinators evaluated INSIDE a continuation, after a nested continuation failed and the
                // enclosing code recovered from that failure: the table rows hold there as well
                for &outer in &["and_then", "and_also"] {
                    for &nested in &["and_then", "and_also", "ResultExt::and_also"] {
                        let alt_calls = Cell::new(0);
                        let cont_calls = Cell::new(0);
                        let body = |t0: u32| -> Result<U, E> {
                            // a nested failure ...
                            let recovered: Result<Option<T>, E> = match nested {
                                "and_then" => Res(Ok(T::mk(1))).and_then(|_| Err::<T, E>(E::mk(77))).optional(),
                                "and_also" => Res(Ok(T::mk(1))).and_also(|_| Err::<(), E>(E::mk(77))).optional(),
                                _ => ResultExt::and_also(Ok::<T, E>(T::mk(1)), |_| Err::<(), E>(E::mk(77))).map(Some),
                            };
                            // ... that the enclosing code inspects and recovers from
                            let nested_failed = matches!(&recovered, Err(e) if e.0 == 77);
                            // now the rows: alternative runs on Fallthrough, continuation runs on Res(Ok)
                            let alt: Parsed<T, E> = Parsed::<T, E>::Fallthrough.or_parse(|| {
                                alt_calls.set(alt_calls.get() + 1);
                                Res(Ok(T::mk(12)))
                            });
                            let cont: Parsed<T, E> = Res(Ok(T::mk(5))).and_then(|x| {
                                cont_calls.set(cont_calls.get() + 1);
                                Ok(T::mk(x.0 + 1))
                            });
                            match (alt, cont, nested_failed) {
                                (Res(Ok(a)), Res(Ok(c)), true) => Ok(U::mk(t0 + a.0 + c.0)),
                                (a, c, f) => Err(E::mk(
                                    1000 + (matches!(a, Res(Ok(_))) as u32) * 100 + (matches!(c, Res(Ok(_))) as u32) * 10 + f as u32,
                                )),
                            }
                        };
                        let got: String = match outer {
                            "and_then" => show(&recv(Recv::Ok).and_then(|t| body(t.0))),
                            _ => {
                                let inner = Cell::new(String::new());
                                let r = recv(Recv::Ok).and_also(|t| {
                                    let b = body(t.0);
                                    inner.set(show_r(&b));
                                    b.map(|_| ())
                                });
                                format!("{} / inner {}", show(&r), inner.take())
                            }
                        };
                        let exp = match outer {
                            "and_then" => "Res(Ok(U(29)))".to_string(),
                            _ => "Res(Ok(T(11))) / inner Ok(U(29))".to_string(),
                        };
                        push(
                            format!("inside-{}-after-recovered-failure-of-nested-{}", outer, nested),
                            obs(got, alt_calls.get() * 10 + cont_calls.get(), "".into()),
                            obs(exp, 11, "".into()),
                        );
                    }
                }

                // ---- From<Result> and ResultExt on {Ok, Err}
                for &ok in &[true, false] {
                    let res = |ok: bool| -> Result<T, E> {
                        if ok {
                            Ok(T::mk(11))
                        } else {
                            Err(E::mk(21))
                        }
                    };
                    {
                        let got: Parsed<T, E> = res(ok).into();
                        let exp = if ok {
                            "Res(Ok(T(11)))"
                        } else {
                            "Res(Err(E(21)))"
                        };
                        push(
                            format!("From<Result>/ok={}", ok),
                            obs(show(&got), 0, "".into()),
                            obs(exp.into(), 0, "".into()),
                        );
                    }
                    {
                        FROM_CALLS.with(|c| c.set(0));
                        let got: Result<T, E2> = ResultExt::err_into(res(ok));
                        let calls = FROM_CALLS.with(|c| c.get());
                        let exp = if ok {
                            obs("Ok(T(11))".into(), 0, "".into())
                        } else {
                            obs("Err(E2(1021))".into(), 1, "".into())
                        };
                        push(
                            format!("ResultExt::err_into/ok={}", ok),
                            obs(show_r(&got), calls, "".into()),
                            exp,
                        );
                    }
                    for &cont_ok in &[true, false] {
                        for &mutate in &[true, false] {
                            let calls = Cell::new(0);
                            let arg = Cell::new(None);
                            let got = ResultExt::and_also(res(ok), |t: &mut T| {
                                calls.set(calls.get() + 1);
                                arg.set(Some(t.clone()));
                                if mutate {
                                    t.0 += 500;
                                }
                                if cont_ok {
                                    Ok(())
                                } else {
                                    Err(E::mk(24))
                                }
                            });
                            let exp = if ok {
                                obs(
                                    match (cont_ok, mutate) {
                                        (true, true) => "Ok(T(511))".into(),
                                        (true, false) => "Ok(T(11))".into(),
                                        (false, _) => "Err(E(24))".into(),
                                    },
                                    1,
                                    "Some(T(11))".into(),
                                )
                            } else {
                                obs("Err(E(21))".into(), 0, "None".into())
                            };
                            push(
                                format!(
                                    "ResultExt::and_also/ok={}/cont_ok={}/mutate={}",
                                    ok, cont_ok, mutate
                                ),
                                obs(show_r(&got), calls.get(), format!("{:?}", arg.take())),
                                exp,
                            );
                        }
                    }
                    for &mutate in &[true, false] {
                        let calls = Cell::new(0);
                        let arg = Cell::new(None);
                        let got = ResultExt::and_do(res(ok), |t: &mut T| {
                            calls.set(calls.get() + 1);
                            arg.set(Some(t.clone()));
                            if mutate {
                                t.0 += 500;
                            }
                        });
                        let exp = if ok {
                            obs(
                                if mutate {
                                    "Ok(T(511))".into()
                                } else {
                                    "Ok(T(11))".into()
                                },
                                1,
                                "Some(T(11))".into(),
                            )
                        } else {
                            obs("Err(E(21))".into(), 0, "None".into())
                        };
                        push(
                            format!("ResultExt::and_do/ok={}/mutate={}", ok, mutate),
                            obs(show_r(&got), calls.get(), format!("{:?}", arg.take())),
                            exp,
                        );
                    }
                }
                out
            }
        }
    };
}

shape!(plain, "", ());
shape!(odd, "shape=u8+u16:", (u8, u16));
shape!(big136, "shape=[u64;16]:", [u64; 16]);
shape!(big328, "shape=[u64;40]:", [u64; 40]);
shape!(heap, "shape=String:", String);
shape!(boxed, "shape=Box:", Box<u8>);
shape!(wide, "shape=u128:", u128);
shape!(aligned, "shape=align64:", Align64);
// conversions between types of different size: E -> E2 and T -> U widening within a few words,
// widening beyond, and narrowing
shape!(widen_small, "shape=widen(4->16):", (), u64, u64);
shape!(widen_mid, "shape=widen(12->32):", u64, [u64; 3], [u64; 3]);
shape!(widen_large, "shape=widen(16->136):", u64, [u64; 16], [u64; 16]);
shape!(narrow, "shape=narrow(136->4):", [u64; 16], (), ());
shape!(to_heap, "shape=widen(&str-like->String):", u64, String, String);
// conversions from a type with drop glue to one without
shape!(drop_to_plain, "shape=String->plain:", String, (), u64);

/// `subset`: only the shapes whose handling could go wrong at the memory level (drop glue, large moves,
/// over-alignment) - what the Miri layer runs
fn cells(subset: bool) -> Vec<Cell15> {
    let mut v = plain::cells();
    v.extend(big136::cells());
    v.extend(heap::cells());
    v.extend(boxed::cells());
    v.extend(aligned::cells());
    v.extend(to_heap::cells());
    v.extend(drop_to_plain::cells());
    if !subset {
        v.extend(odd::cells());
        v.extend(big328::cells());
        v.extend(wide::cells());
        v.extend(widen_small::cells());
        v.extend(widen_mid::cells());
        v.extend(widen_large::cells());
        v.extend(narrow::cells());
    }
    v
}

fn shape_sizes() -> Vec<(&'static str, usize, usize, [usize; 4])> {
    vec![
        ("unit", plain::sizes().0, plain::sizes().1, plain::conv_sizes()),
        ("u8+u16", odd::sizes().0, odd::sizes().1, odd::conv_sizes()),
        ("[u64;16]", big136::sizes().0, big136::sizes().1, big136::conv_sizes()),
        ("[u64;40]", big328::sizes().0, big328::sizes().1, big328::conv_sizes()),
        ("String", heap::sizes().0, heap::sizes().1, heap::conv_sizes()),
        ("Box", boxed::sizes().0, boxed::sizes().1, boxed::conv_sizes()),
        ("u128", wide::sizes().0, wide::sizes().1, wide::conv_sizes()),
        ("align64", aligned::sizes().0, aligned::sizes().1, aligned::conv_sizes()),
        ("widen(4->16)", widen_small::sizes().0, widen_small::sizes().1, widen_small::conv_sizes()),
        ("widen(12->32)", widen_mid::sizes().0, widen_mid::sizes().1, widen_mid::conv_sizes()),
        ("widen(16->136)", widen_large::sizes().0, widen_large::sizes().1, widen_large::conv_sizes()),
        ("narrow(136->4)", narrow::sizes().0, narrow::sizes().1, narrow::conv_sizes()),
        ("widen(->String)", to_heap::sizes().0, to_heap::sizes().1, to_heap::conv_sizes()),
        ("String->plain", drop_to_plain::sizes().0, drop_to_plain::sizes().1, drop_to_plain::conv_sizes()),
    ]
}

/// A composed grammar, evaluated for every token sequence up to a small length against a direct
/// recursive reference: checks that the combinators compose as non-backtracking choice.
/// Grammar: item := 'a' 'b'? | 'c' ('d' | 'e') ; seq := item* 'z'
fn compose(tokens: &[u8]) -> (Result<Vec<u8>, (usize, u8)>, Vec<usize>) {
    // returns parse result (list of item codes) or (error position, code); and closure-call trace
    let pos = Cell::new(0usize);
    let trace = std::cell::RefCell::new(vec![]);
    let peek = || tokens.get(pos.get()).copied();
    let tok = |c: u8| -> Parsed<(), (usize, u8)> {
        if peek() == Some(c) {
            pos.set(pos.get() + 1);
            Res(Ok(()))
        } else {
            Fallthrough
        }
    };
    let item = || -> Parsed<u8, (usize, u8)> {
        tok(b'a')
            .and_then(|_| {
                trace.borrow_mut().push(1);
                Ok(if tok(b'b').matches()? { 2 } else { 1 })
            })
            .or_parse(|| {
                trace.borrow_mut().push(2);
                tok(b'c').and_then(|_| {
                    trace.borrow_mut().push(3);
                    tok(b'd')
                        .map(|_| 3u8)
                        .or_parse(|| tok(b'e').map(|_| 4u8))
                        .or_give_up(|| (pos.get(), 1))
                })
            })
    };
    let mut items = vec![];
    let r = (|| {
        while let Some(i) = item().optional()? {
            items.push(i);
        }
        tok(b'z').or_give_up(|| (pos.get(), 2))?;
        if pos.get() != tokens.len() {
            return Err((pos.get(), 3));
        }
        Ok(())
    })();
    (r.map(|_| items), trace.into_inner())
}

fn compose_ref(tokens: &[u8]) -> (Result<Vec<u8>, (usize, u8)>, Vec<usize>) {
    let mut pos = 0;
    let mut items = vec![];
    let mut trace = vec![];
    loop {
        match tokens.get(pos) {
            Some(b'a') => {
                pos += 1;
                trace.push(1);
                if tokens.get(pos) == Some(&b'b') {
                    pos += 1;
                    items.push(2);
                } else {
                    items.push(1);
                }
            }
            Some(b'c') => {
                trace.push(2);
                pos += 1;
                trace.push(3);
                match tokens.get(pos) {
                    Some(b'd') => {
                        pos += 1;
                        items.push(3)
                    }
                    Some(b'e') => {
                        pos += 1;
                        items.push(4)
                    }
                    _ => return (Err((pos, 1)), trace),
                }
            }
            _ => {
                trace.push(2);
                break;
            }
        }
    }
    if tokens.get(pos) == Some(&b'z') {
        pos += 1;
    } else {
        return (Err((pos, 2)), trace);
    }
    if pos != tokens.len() {
        return (Err((pos, 3)), trace);
    }
    (Ok(items), trace)
}

pub struct C15 {
    pub max_len: usize,
    pub subset: bool,
}

impl Monitor for C15 {
    fn case(&mut self, idx: u64, _rng: &mut Rng, rep: &mut Report) {
        // case 0: the complete cell table; case k>0: all token strings of length k-1 over {a,b,c,d,e,z}
        if idx == 0 {
            let subset = self.subset;
            let mut cs = crate::work::sut(|| cells(subset));
            // the same table evaluated from a destructor while the thread is unwinding from a panic
            // (`std::thread::panicking()` is true there): combinators are plain functions of their
            // arguments and must not notice
            {
                struct InDrop<'a>(&'a std::cell::RefCell<Vec<Cell15>>, bool);
                impl Drop for InDrop<'_> {
                    fn drop(&mut self) {
                        debug_assert!(std::thread::panicking());
                        *self.0.borrow_mut() = cells(self.1);
                    }
                }
                struct HarnessUnwind;
                let slot = std::cell::RefCell::new(vec![]);
                let r = crate::work::sut(|| {
                    std::panic::catch_unwind(std::panic::AssertUnwindSafe(|| {
                        let _g = InDrop(&slot, true);
                        std::panic::resume_unwind(Box::new(HarnessUnwind));
                    }))
                });
                let _ = r;
                for mut c in slot.into_inner() {
                    c.name = format!("while-unwinding:{}", c.name);
                    rep.inc("cells_evaluated_while_unwinding");
                    cs.push(c);
                }
            }
            // combinators keep no state: the table evaluated for the 300th time on the same thread (thousands of
            // committed failures, fallthroughs and caught continuations later) reads like the first time
            if !cfg!(miri) {
                let mut last = vec![];
                for _ in 0..300 {
                    last = crate::work::sut(|| cells(true));
                    rep.inc("table_repetitions_on_one_thread");
                }
                for mut c in last {
                    c.name = format!("300th-evaluation-on-this-thread:{}", c.name);
                    cs.push(c);
                }
            }
            for (name, size, align, conv) in shape_sizes() {
                rep.extra.insert(
                    format!("shape:{}", name),
                    J::obj()
                        .set("size_of_Parsed<T,E>", J::u(size))
                        .set("align_of_Parsed<T,E>", J::u(align))
                        .set("size_of_T_U_E_E2", J::A(conv.iter().map(|&x| J::u(x)).collect())),
                );
                if !subset || ["unit", "[u64;16]", "String", "Box", "align64", "widen(->String)", "String->plain"].contains(&name) {
                    rep.inc("shapes");
                }
            }
            for c in &cs {
                rep.inc("cells");
                rep.nontrivial(H::new().b(c.name.as_bytes()).get());
                if c.observed != c.expected {
                    rep.violation(
                        &format!("cell:{}", c.name),
                        J::obj()
                            .set("cell", J::s(c.name.clone()))
                            .set("observed", J::s(format!("{:?}", c.observed)))
                            .set("expected", J::s(format!("{:?}", c.expected))),
                    );
                }
                if c.name.starts_with("and_also/Ok") || c.name.starts_with("or_parse/Fall") {
                    rep.sample(|| {
                        J::obj()
                            .set("cell", J::s(c.name.clone()))
                            .set("observed", J::s(format!("{:?}", c.observed)))
                    });
                }
            }
            return;
        }
        let len = (idx - 1) as usize;
        if len > self.max_len {
            return;
        }
        let alphabet = b"abcdez";
        let total = (alphabet.len() as u64).pow(len as u32);
        let mut toks = vec![0u8; len];
        for n in 0..total {
            let mut x = n;
            for t in toks.iter_mut() {
                *t = alphabet[(x % 6) as usize];
                x /= 6;
            }
            let got = crate::work::sut(|| compose(&toks));
            let exp = compose_ref(&toks);
            rep.inc("grammar_strings");
            if len >= 2 {
                rep.nontrivial(H::new().b(&toks).u(7).get());
            }
            if got != exp {
                rep.violation(
                    "grammar",
                    J::obj()
                        .set("tokens", J::s(String::from_utf8_lossy(&toks).to_string()))
                        .set("observed", J::s(format!("{:?}", got)))
                        .set("expected", J::s(format!("{:?}", exp))),
                );
            }
        }
    }
    fn panic_is_violation(&self) -> bool {
        true
    }
}
