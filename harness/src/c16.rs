//! C16 - text scanning helpers pass over exactly what they document, and no further.
//!
//! Events: returned offset of tabs_or_spaces / newline / next_newline / fixed(pattern) at offset o,
//! reader position before/after, source call + delivered counters.
//! Oracle: reference on the full byte string (written from the rustdoc), position unchanged, and
//! look-ahead accounting: under the 1-byte schedule with chunk size 1 the source has delivered exactly
//! max(previously delivered, last index the reference must inspect + 1); under other schedules no
//! read call is made once the deciding byte is buffered.

use crate::json::{excerpt, J};
use crate::prng::{Rng, H};
use crate::src::{Policy, Src};
use crate::work::{sut, Monitor, Report};
use flussab::{text, DeferredReader};
use std::rc::Rc;

#[derive(Clone, Copy, Debug, PartialEq, Eq)]
pub enum F {
    Blanks,
    Newline,
    NextNewline,
    Fixed,
}

/// Reference: (returned offset, highest index that must be inspected (None = none)).
pub fn reference(f: F, s: &[u8], o: usize, pat: &[u8]) -> (usize, Option<usize>) {
    match f {
        F::Blanks => {
            let mut i = o;
            while i < s.len() && (s[i] == b' ' || s[i] == b'\t') {
                i += 1;
            }
            // inspects o..=i (i is the first non-blank or the end-of-data probe)
            (i, Some(i))
        }
        F::Newline => {
            if o < s.len() && s[o] == b'\n' {
                (o + 1, Some(o))
            } else if o < s.len() && s[o] == b'\r' {
                if o + 1 < s.len() && s[o + 1] == b'\n' {
                    (o + 2, Some(o + 1))
                } else {
                    (o, Some(o + 1))
                }
            } else {
                (o, Some(o))
            }
        }
        F::NextNewline => {
            let mut i = o;
            while i < s.len() && s[i] != b'\n' {
                i += 1;
            }
            if i < s.len() {
                (i + 1, Some(i))
            } else {
                // reached the end of data: offset is the end (or o itself when o is already past it)
                (i.max(o), Some(i.max(o)))
            }
        }
        F::Fixed => {
            for (k, &b) in pat.iter().enumerate() {
                if o + k >= s.len() || s[o + k] != b {
                    return (o, Some(o + k));
                }
            }
            if pat.is_empty() {
                (o, None)
            } else {
                (o + pat.len(), Some(o + pat.len() - 1))
            }
        }
    }
}

pub fn call(f: F, r: &mut DeferredReader, o: usize, pat: &[u8]) -> usize {
    match f {
        F::Blanks => text::tabs_or_spaces(r, o),
        F::Newline => text::newline(r, o),
        F::NextNewline => text::next_newline(r, o),
        F::Fixed => text::fixed(r, o, pat),
    }
}

pub struct C16 {
    pub mode: String,
    pub max_len: usize,
}

const ALPHA: &[u8] = b" \t\r\na\x63";
/// blanks, line ends and every byte that differs from one of them in one bit or by +-1
/// (what a word-at-a-time implementation is most likely to confuse)
fn neighbour_alphabet() -> Vec<u8> {
    let mut v = vec![];
    for &c in b" \t\n\r" {
        v.push(c);
        v.push(c.wrapping_add(1));
        v.push(c.wrapping_sub(1));
        for bit in 0..8 {
            v.push(c ^ (1 << bit));
        }
    }
    v.sort();
    v.dedup();
    v
}
/// alphabet of the complete 8-byte word enumeration (mode=words)
const WORD_ALPHA: [u8; 6] = [b' ', b'\t', b'!', 0x08, b'\n', b'a'];

fn nth_string(mut idx: u64) -> Vec<u8> {
    // strings ordered by length, then base-6 digits
    let mut len = 0usize;
    let mut block = 1u64;
    while idx >= block {
        idx -= block;
        block *= 6;
        len += 1;
    }
    let mut s = vec![0u8; len];
    for c in s.iter_mut() {
        *c = ALPHA[(idx % 6) as usize];
        idx /= 6;
    }
    s
}

pub fn total_strings(max_len: usize) -> u64 {
    (0..=max_len as u32).map(|l| 6u64.pow(l)).sum()
}

struct Eval<'a> {
    s: &'a [u8],
    data: Rc<Vec<u8>>,
    /// the source fails after the data instead of reporting a clean end (the error stays parked)
    fail: bool,
}

impl<'a> Eval<'a> {
    /// One evaluation under the strict 1-byte/chunk-1 regime with `pre` bytes requested beforehand
    /// and the reader advanced by `adv` (so the scanner's offset is relative to position `adv`).
    fn strict(&self, rep: &mut Report, f: F, o: usize, pat: &[u8], pre: usize, adv: usize) {
        let s = self.s;
        let mut src = Src::new(self.data.clone(), Policy::Fixed(1), 0);
        if self.fail {
            src = src.failing_at(s.len());
        }
        let mut r = DeferredReader::from_read(src.clone());
        r.set_chunk_size(1);
        let (got, pos_before, pos_after, delivered_before, delivered_after, calls) = sut(|| {
            r.request(pre);
            let adv = adv.min(r.buf_len());
            r.advance(adv);
            let pos_before = r.position();
            let d0 = src.delivered();
            let c0 = src.0.borrow().log.calls;
            let got = call(f, &mut r, o - adv, pat);
            (
                got + adv,
                pos_before,
                r.position(),
                d0,
                src.delivered(),
                src.0.borrow().log.calls - c0,
            )
        });
        let adv = adv.min(pre.min(s.len()));
        let (exp, need) = reference(f, s, o, pat);
        rep.inc("evals_strict");
        if pre > s.len() {
            rep.inc("evals_on_reader_that_has_seen_the_end");
        }
        let needed = match need {
            Some(i) => i.saturating_add(1).min(s.len()),
            None => 0,
        };
        let exp_delivered = delivered_before.max(needed);
        let mut bad = vec![];
        if got != exp {
            bad.push(format!("offset: got {} expected {}", got, exp));
        }
        if pos_before != pos_after || pos_after != adv {
            bad.push(format!(
                "position moved: before {} after {} (expected {})",
                pos_before, pos_after, adv
            ));
        }
        if delivered_after != exp_delivered {
            bad.push(format!(
                "look-ahead: source delivered {} bytes, the reference needs exactly {} (before the call: {})",
                delivered_after, exp_delivered, delivered_before
            ));
        }
        // an end-of-data probe is allowed only if the reference has to inspect an index >= len
        let probe_allowed = matches!(need, Some(i) if i >= s.len());
        let max_calls = (exp_delivered - delivered_before) as u64 + probe_allowed as u64;
        if calls > max_calls {
            bad.push(format!(
                "read calls: {} made, at most {} needed",
                calls, max_calls
            ));
        }
        if exp > o || need.map_or(false, |i| i > o) {
            rep.inc("nontrivial_evals");
            if rep.hashes.len() < 200_000 {
                rep.nontrivial(
                    H::new()
                        .b(s)
                        .u(o as u64)
                        .u(f as u64)
                        .b(pat)
                        .u(pre as u64)
                        .u(adv as u64)
                        .get(),
                );
            }
        }
        if !bad.is_empty() {
            rep.violation(
                &format!("{:?}", f),
                J::obj()
                    .set("fn", J::s(format!("{:?}", f)))
                    .set("input", J::bytes(s))
                    .set("offset", J::u(o))
                    .set("pattern", J::s(excerpt(pat, 64)))
                    .set("pre_buffered", J::u(pre))
                    .set("advanced", J::u(adv))
                    .set("schedule", J::s("1 byte per read, chunk size 1"))
                    .set("problems", J::A(bad.into_iter().map(J::s).collect())),
            );
        } else if rep.want_sample() && exp > o.saturating_add(1) {
            rep.sample(|| {
                J::obj()
                    .set("fn", J::s(format!("{:?}", f)))
                    .set("input", J::s(excerpt(s, 64)))
                    .set("offset", J::u(o))
                    .set("pattern", J::s(excerpt(pat, 64)))
                    .set("returned", J::u(got))
                    .set("delivered_before", J::u(delivered_before))
                    .set("delivered_after", J::u(delivered_after))
                    .set("read_calls", J::U(calls))
            });
        }
    }

    /// Evaluation under an arbitrary schedule/chunk: result + "no read once the deciding byte is buffered".
    fn loose(&self, rep: &mut Report, f: F, o: usize, pat: &[u8], policy: Policy, chunk: usize, seed: u64, pre: usize) {
        let s = self.s;
        let mut src = Src::new(self.data.clone(), policy.clone(), seed).with_calls();
        if self.fail {
            src = src.failing_at(s.len());
        }
        let mut r = DeferredReader::from_read(src.clone());
        r.set_chunk_size(chunk);
        let (got, pos_before, pos_after, d0, ncalls0) = sut(|| {
            r.request(pre);
            let pos_before = r.position();
            let d0 = src.delivered();
            let n0 = src.0.borrow().log.call_log.len();
            let got = call(f, &mut r, o, pat);
            (got, pos_before, r.position(), d0, n0)
        });
        let (exp, need) = reference(f, s, o, pat);
        rep.inc("evals_loose");
        let mut bad = vec![];
        if got != exp {
            bad.push(format!("offset: got {} expected {}", got, exp));
        }
        if pos_before != pos_after {
            bad.push("position moved".to_string());
        }
        // every successful read during the call must have started while the deciding byte was missing
        let log = src.log();
        let mut delivered = d0;
        for &(_, res) in &log.call_log[ncalls0..] {
            let needed_more = match need {
                Some(i) => delivered <= i,
                None => false,
            };
            if res >= 0 && !needed_more {
                bad.push(format!(
                    "read call made although the deciding byte (index {:?}) was already buffered ({} delivered)",
                    need, delivered
                ));
                break;
            }
            if res > 0 {
                delivered += res as usize;
            }
        }
        if exp > o {
            rep.inc("nontrivial_evals");
            rep.nontrivial(
                H::new()
                    .b(s)
                    .u(o as u64)
                    .u(f as u64)
                    .b(pat)
                    .u(chunk as u64)
                    .u(seed)
                    .get(),
            );
        }
        if !bad.is_empty() {
            rep.violation(
                &format!("{:?}-sched", f),
                J::obj()
                    .set("fn", J::s(format!("{:?}", f)))
                    .set("input", J::bytes(s))
                    .set("offset", J::u(o))
                    .set("pattern", J::s(excerpt(pat, 64)))
                    .set("pre_buffered", J::u(pre))
                    .set("schedule", J::s(policy.describe()))
                    .set("chunk", J::u(chunk))
                    .set("problems", J::A(bad.into_iter().map(J::s).collect())),
            );
        }
    }
}

fn patterns(s: &[u8], o: usize, rng: Option<&mut Rng>) -> Vec<Vec<u8>> {
    let mut v: Vec<Vec<u8>> = vec![vec![]];
    let tail = if o <= s.len() { &s[o..] } else { &[][..] };
    for l in 1..=tail.len().min(5) {
        v.push(tail[..l].to_vec());
        // one-byte-mutated prefix: mutate the last byte and (for l>=2) the first
        let mut m = tail[..l].to_vec();
        m[l - 1] = if m[l - 1] == b'a' { b'c' } else { b'a' };
        v.push(m);
        if l >= 2 {
            let mut m = tail[..l].to_vec();
            m[0] = if m[0] == b' ' { b'\t' } else { b' ' };
            v.push(m);
        }
    }
    // longer than the remaining input
    let mut long = tail.to_vec();
    long.push(b'a');
    v.push(long);
    let mut long2 = tail.to_vec();
    long2.extend_from_slice(b"\r\n");
    v.push(long2);
    if let Some(rng) = rng {
        let l = 1 + rng.usize(12);
        v.push((0..l).map(|_| *rng.pick(ALPHA)).collect());
    }
    v
}

impl Monitor for C16 {
    fn case(&mut self, idx: u64, rng: &mut Rng, rep: &mut Report) {
        if self.mode == "enum" {
            let s = nth_string(idx);
            let ev = Eval {
                s: &s,
                data: Rc::new(s.clone()),
                fail: false,
            };
            rep.inc("strings");
            for o in 0..=s.len() + 1 {
                for f in [F::Blanks, F::Newline, F::NextNewline] {
                    ev.strict(rep, f, o, &[], 0, 0);
                }
                for p in patterns(&s, o, None) {
                    ev.strict(rep, F::Fixed, o, &p, 0, 0);
                }
                // the same with some bytes already buffered / the cursor advanced
                if o <= s.len() && s.len() >= 2 {
                    let pre = (idx as usize + o) % (s.len() + 1);
                    let adv = if o > 0 { (idx as usize) % (o.min(pre) + 1) } else { 0 };
                    for f in [F::Blanks, F::Newline, F::NextNewline] {
                        ev.strict(rep, f, o, &[], pre, adv);
                    }
                    let ps = patterns(&s, o, None);
                    let p = &ps[(idx as usize) % ps.len()];
                    ev.strict(rep, F::Fixed, o, p, pre, adv);
                }
                // start offsets at the top of the usize range: nothing is there, the offset comes back
                // unchanged (and no arithmetic on it may go wrong)
                if o == 0 && idx % 8 == 0 {
                    for ho in [usize::MAX, usize::MAX - 1, usize::MAX - 2, usize::MAX - 8, 1usize << 63, (1usize << 32) + 1] {
                        for f in [F::Blanks, F::Newline, F::NextNewline] {
                            ev.strict(rep, f, ho, &[], 0, 0);
                            ev.strict(rep, f, ho, &[], s.len() + 1, 0);
                        }
                        ev.strict(rep, F::Fixed, ho, b"ab", 0, 0);
                        ev.strict(rep, F::Fixed, ho, &[], s.len(), 0);
                        rep.inc("evals_at_offsets_near_usize_max");
                    }
                }
                // the same on a reader that has already seen the end of input (an earlier request went
                // past it), with and without the cursor advanced
                if o <= s.len() {
                    let pre = s.len() + 1;
                    let adv = if o > 0 { (idx as usize) % (o + 1) } else { 0 };
                    // ... and on one whose source failed after the data (error pending in the reader)
                    let evf = Eval {
                        s: &s,
                        data: ev.data.clone(),
                        fail: true,
                    };
                    for f in [F::Blanks, F::Newline, F::NextNewline] {
                        evf.strict(rep, f, o, &[], if idx % 2 == 0 { pre } else { 0 }, 0);
                    }
                    let psf = patterns(&s, o, None);
                    evf.strict(rep, F::Fixed, o, &psf[(idx as usize + 2) % psf.len()], if idx % 2 == 0 { pre } else { 0 }, 0);
                    rep.inc("evals_with_a_source_that_fails_after_the_data");
                    for f in [F::Blanks, F::Newline, F::NextNewline] {
                        ev.strict(rep, f, o, &[], pre, 0);
                        if adv > 0 {
                            ev.strict(rep, f, o, &[], pre, adv);
                        }
                    }
                    let ps = patterns(&s, o, None);
                    let p = &ps[(idx as usize + 1) % ps.len()];
                    ev.strict(rep, F::Fixed, o, p, pre, adv);
                }
            }
        } else if self.mode == "words" {
            // every 8-byte word over WORD_ALPHA, fully buffered (so that word-at-a-time scanning, if any,
            // is what runs), at start offsets 0 and 1, followed by a short tail
            let mut s = vec![0u8; 8];
            let mut x = idx;
            for c in s.iter_mut() {
                *c = WORD_ALPHA[(x % 6) as usize];
                x /= 6;
            }
            s.extend_from_slice(match idx % 3 {
                0 => b" a",
                1 => b"!\t",
                _ => b"",
            });
            let ev = Eval {
                s: &s,
                data: Rc::new(s.clone()),
                fail: false,
            };
            rep.inc("strings");
            rep.inc("words");
            for o in 0..2 {
                for f in [F::Blanks, F::Newline, F::NextNewline] {
                    ev.strict(rep, f, o, &[], s.len(), 0);
                    ev.strict(rep, f, o + 1, &[], s.len(), 1);
                }
                ev.strict(rep, F::Fixed, o, &s[o..o + 5], s.len(), 0);
            }
        } else {
            // sampled: long strings across refills, random schedules and chunk sizes
            let len = match rng.below(4) {
                0 => rng.usize(40),
                1 => rng.usize(300),
                2 => rng.usize(5000),
                _ => 16000 + rng.usize(3000),
            };
            let blanky = rng.chance(1, 2);
            let neigh = neighbour_alphabet();
            let wide = rng.chance(1, 2);
            let s: Vec<u8> = (0..len)
                .map(|_| {
                    if blanky && rng.chance(9, 10) {
                        *rng.pick(b" \t")
                    } else if rng.chance(1, 40) {
                        b'\n'
                    } else if wide && rng.chance(1, 2) {
                        *rng.pick(&neigh)
                    } else if wide && rng.chance(1, 8) {
                        rng.next() as u8
                    } else {
                        *rng.pick(ALPHA)
                    }
                })
                .collect();
            let ev = Eval {
                s: &s,
                data: Rc::new(s.clone()),
                fail: false,
            };
            rep.inc("strings");
            for _ in 0..6 {
                let o = if rng.chance(1, 8) {
                    len + rng.usize(3)
                } else {
                    rng.usize(len + 1)
                };
                let chunk = *rng.pick(&[1usize, 2, 3, 7, 8, 9, 16, 17, 64, 1024, 16384]);
                let policy = match rng.below(4) {
                    0 => Policy::Fixed(1 + rng.usize(9)),
                    1 => Policy::OneShot,
                    2 => Policy::Random {
                        mean_x10: *rng.pick(&[15u64, 40, 160, 2000]),
                        interrupts: rng.chance(1, 2),
                    },
                    _ => Policy::SplitAt(rng.usize(len + 1)),
                };
                let pre = match rng.below(4) {
                    0 | 1 => 0,
                    2 => rng.usize(len + 1),
                    // past the end: the reader is complete before the call
                    _ => len + 1 + rng.usize(3),
                };
                let seed = rng.next();
                let ps = patterns(&s, o, Some(rng));
                let p = ps[rng.usize(ps.len())].clone();
                for f in [F::Blanks, F::Newline, F::NextNewline] {
                    ev.loose(rep, f, o, &[], policy.clone(), chunk, seed, pre);
                }
                ev.loose(rep, F::Fixed, o, &p, policy.clone(), chunk, seed, pre);
                // long pattern that matches across many refills
                if o < len {
                    let l = (len - o).min(1 + rng.usize(3000));
                    let mut p = s[o..o + l].to_vec();
                    if rng.chance(1, 2) {
                        let k = rng.usize(l);
                        p[k] ^= 0x40;
                    }
                    ev.loose(rep, F::Fixed, o, &p, policy.clone(), chunk, seed, pre);
                    if o <= 4000 {
                        ev.strict(rep, F::Fixed, o, &p, 0, 0);
                        ev.strict(rep, F::NextNewline, o, &[], 0, 0);
                        ev.strict(rep, F::Blanks, o, &[], 0, 0);
                    }
                }
            }
        }
    }
    fn panic_is_violation(&self) -> bool {
        true
    }
}
