//! Input corpora shared by the parser-level monitors: grammar-generated documents, mutations of
//! them, arbitrary bytes, a hand-written hostile catalogue and the literal inputs of the
//! repository's own tests as seeds.

use crate::c07::gen_doc;
use crate::drive::{PCfg, PK};
use crate::gen::{self, Doc};
use crate::prng::Rng;

#[derive(Clone, Copy, Debug, PartialEq, Eq)]
pub enum Class {
    Generated,
    Mutated,
    Arbitrary,
    Hostile,
    Seed,
    /// a well-formed document with one number token moved to just below / at / above its limit
    Limit,
}

impl Class {
    pub fn name(self) -> &'static str {
        match self {
            Class::Generated => "generated",
            Class::Mutated => "mutated",
            Class::Arbitrary => "arbitrary",
            Class::Hostile => "hostile",
            Class::Seed => "seed",
            Class::Limit => "limit",
        }
    }
}

pub struct Input {
    pub bytes: Vec<u8>,
    pub class: Class,
    /// present for Class::Generated
    pub doc: Option<Doc>,
}

/// literal inputs of the repository's tests (flussab-cnf) - used as seeds for mutation as well
pub const CNF_SEEDS: [&str; 30] = [
    "",
    "1 2 -3 0\n4 5 0\n-6 0\n0\n",
    "1 2 -3 0\n\n4 5 0\n\n\n-6 0\n0\n\n",
    "1 2 -3 0\r\n\r\n4 5 0\r\n\r\n\r\n-6 0\r\n0\r\n\r\n",
    "\n\np cnf 6 4\n1 2 -3 0\n4 5 0\n-6 0\n0\n",
    "p cnf 6 4\n1 2 -3 0\n4 5 0\n-6 0\n0\n",
    "  p   cnf   6   4  \n  1   2   -3   0  \n4 5 0\n\t-6\t0\t\n\t0\t\n",
    "p cnf 6 0\n1 2 -3 0\n4 5 0\n-6 0\n0\n",
    "p cnf 0 0\n1 2 -3 0\n4 5 0\n-6 0\n0\n",
    "p cnf 3\n1 2 3 0\n",
    "1 2 -3 0\n4 5 0\n-6 0\n0",
    "c foo\np cnf 6 4\n1 2 -3 0\n4 5 0\n-6 0\n0\n",
    "p cnf 6 4\n1 2 -3 0\n4 5 0\nc foo\n-6 0\n0\n",
    "p cnf 6 4\n1 2 -3 0\n4 5 0\n-6 0\n0\nc foo\n",
    "p cnf 6 4\n1 2\n-3 0\n4\n5 0\n-6 0\n0\n",
    "p cnf 6 4\n1 2\nc foo\n-3 0\n4\nc bar\nc baz\n5 0\n-6 0\n0\n",
    "p cnf 006 04\n01 002 -0003 0\n4 5 -0\n-6 0\n0\n",
    "p cnf 2147483647 1\n1 2147483647 0\n",
    "p cnf 2147483648 1\n1 0\n",
    "p cnf 1 18446744073709551616\n1 0\n",
    "p cnf 4 1\n1 2147483648 0\n",
    "p cnf 4 1\n1 -2147483649 0\n",
    "p cnf 4 1\n1 5 0\n",
    "p cnf -4 1\n1 0\n",
    "p cnf 4 1 2\n1 0\n",
    "p dnf 4 1\n",
    "p cnf 4 2\n1 0\n",
    "p cnf 4 1\n1 0\n2 0\n",
    "p cnf 4 1\n1 2 foo 0\n",
    "p cnf 4 1\n1 2\n",
];

pub const LOG_SEEDS: [&str; 16] = [
    "",
    "c comment\ns UNKNOWN\n",
    "c comment\ns UNSATISFIABLE\n",
    "s SATISFIABLE\n",
    "s SATISFIABLE\nv 1 -2 3 0\n",
    "v 1 -2 3 0\ns SATISFIABLE\n",
    "s SATISFIABLE\nv 1 -2\nv 3 0\n",
    "s SATISFIABLE\nv  1  -2  3  0\n",
    "foo\n\nc\ns SATISFIABLE\nbar\nv 1 -2 3 0\n",
    "\n",
    "c  foo\n",
    "s  SATISFIABLE\n",
    "s SATISFIABLE \n",
    "s SATISFIABLE\ns UNSATISFIABLE\n",
    "v 1 2 3\n",
    "v 1 2 3 0 4\n",
];

pub const BTOR_SEED: &str = "1 sort bitvec 1\n2 sort bitvec 8\n3 sort array 2 2\n4 input 2 in\n5 state 2 st ; comment\n6 const 2 00000001\n7 constd 2 -1\n8 consth 2 ff\n9 one 2\n10 ones 2\n11 zero 2\n12 add 2 4 5\n13 uext 2 4 0\n14 slice 1 4 0 0\n15 ite 2 14 4 5\n16 init 2 5 11\n17 next 2 5 12\n18 bad 14\n19 constraint 14\n20 fair 14\n21 output 12\n22 justice 2 14 14\n; a comment line\n23 write 3 3 4 5\n24 read 2 3 4\n";

pub fn seeds(pk: PK) -> Vec<&'static str> {
    match pk {
        PK::Cnf => CNF_SEEDS.to_vec(),
        PK::Wcnf => vec![
            "p wcnf 6 4 10\n10 1 2 -3 0\n3 4 5 0\n1 -6 0\n10 0\n",
            "1 1 0\n",
            "p wcnf 3 2 18446744073709551615\n18446744073709551615 1 0\n0 -3 0\n",
            "5\n1 2\n0\n",
        ],
        PK::Gcnf => vec![
            "p gcnf 6 4 3\n{0} 1 2 -3 0\n{1} 4 5 0\n{3} -6 0\n{2} 0\n",
            "{1} 1 0\n",
            "p gcnf 3 1 2\n{3} 1 0\n",
            "{1}\n1 2\n0\n",
        ],
        PK::Log => LOG_SEEDS.to_vec(),
        PK::Aag => vec![
            "aag 0 0 0 0 0\n",
            "aag 0 0 0 1 0\n0\n",
            "aag 1 1 0 1 0\n2\n2\n",
            "aag 3 2 0 1 1\n2\n4\n6\n6 2 4\n",
            "aag 7 2 1 2 4\n2\n4\n6 8\n6\n7\n8 4 10\n10 13 15\n12 2 6\n14 3 7\ni0 enable\ni1 reset\no0 Q\no1 !Q\nl0 latch_Q\nc\ncomment\n",
            "aag 1 0 1 0 0 1\n2 3\n2\nb0 bad\n",
            "aag 2 1 1 0 0 1 1 1 1\n2\n4 2 1\n4\n2\n1\n4\n3\nj0 just\nf0 fair\nc0 constr\n",
        ],
        PK::Aig => vec![
            "aig 0 0 0 0 0\n",
            "aig 1 1 0 1 0\n2\n",
            "aig 3 2 0 1 1\n6\n\x02\x02",
            "aig 5 2 1 2 2\n10 1\n6\n7\n\x02\x02\x03\x02i0 x\no0 y\nc\nhi\n",
        ],
        PK::Btor2 => vec![BTOR_SEED, "", "; only a comment", "1 sort bitvec 8\n"],
    }
}

/// Hand-written hostile catalogue (format-specific).
pub fn hostile(pk: PK) -> Vec<Vec<u8>> {
    let big = "9".repeat(200);
    let mut v: Vec<Vec<u8>> = vec![];
    let s = |x: &str| x.as_bytes().to_vec();
    match pk {
        PK::Cnf | PK::Wcnf | PK::Gcnf => {
            let f = match pk {
                PK::Cnf => "cnf",
                PK::Wcnf => "wcnf",
                _ => "gcnf",
            };
            let third = if pk == PK::Cnf { "" } else { " 5" };
            let pre = match pk {
                PK::Cnf => "",
                PK::Wcnf => "3 ",
                _ => "{1} ",
            };
            v.push(s(&format!("p {f} {big} 1{third}\n")));
            v.push(s(&format!("p {f} 1 {big}{third}\n")));
            v.push(s(&format!("p {f} 1 1 {big}\n")));
            v.push(s(&format!("{pre}{big} 0\n")));
            v.push(s(&format!("{pre}-{big} 0\n")));
            v.push(s(&format!("{pre}- 0\n")));
            v.push(s(&format!("{pre}-\n")));
            v.push(s(&format!("{pre}1 2\r3 0\n")));
            v.push(s(&format!("{pre}1 2 0\r")));
            v.push(s("\r"));
            v.push(s("c"));
            v.push(s("c\r"));
            v.push(s("p"));
            v.push(s(&format!("p {f}")));
            v.push(s(&format!("p {f} ")));
            v.push(s(&format!("p {f} 1")));
            v.push(s(&format!("p {f} 1 ")));
            v.push(s(&format!("p {f} 0 0{third}")));
            v.push(s(&format!("p {f} 18446744073709551615 18446744073709551615{third}\n")));
            v.push(s(&format!("p {f} 9223372036854775807 0{third}\n{pre}9223372036854775807 -9223372036854775807 0\n")));
            v.push(s(&format!("p {f} 9223372036854775808 0{third}\n")));
            v.push(s(&format!("{pre}9223372036854775808 0\n")));
            v.push(s(&format!("{pre}-9223372036854775808 0\n")));
            v.push(s(&format!("{pre}\u{00e9}\u{2192} 0\n")));
            v.push(s("{"));
            v.push(s("{}"));
            v.push(s("{1"));
            v.push(s("{1} "));
            v.push(s(&format!("{{{big}}} 1 0\n")));
            v.push(s("{18446744073709551615} 1 0\n"));
            v.push(s("{18446744073709551616} 1 0\n"));
            v.push(s("18446744073709551616 1 0\n"));
            v.push(vec![b'1', b' ', 0xff, b' ', b'0', b'\n']);
            v.push(s(&format!("{}1 0\n", "c x\n".repeat(300))));
            v.push(s(&format!("{pre}{}0\n", "1 ".repeat(3000))));
        }
        PK::Log => {
            v.push(s(&format!("v {big} 0\n")));
            v.push(s(&format!("v -{big} 0\n")));
            v.push(s("v - 0\n"));
            v.push(s("v"));
            v.push(s("v "));
            v.push(s("v 1"));
            v.push(s("v 1 0"));
            v.push(s("v 1 0\r"));
            v.push(s("s"));
            v.push(s("s "));
            v.push(s("s SATISFIABLE"));
            v.push(s("s SATISFIABLEX\n"));
            v.push(s("s UNSAT\n"));
            v.push(s("c"));
            v.push(s("c "));
            v.push(s("c \r"));
            v.push(s("v 9223372036854775807 -9223372036854775807 0\n"));
            v.push(s("v 9223372036854775808 0\n"));
            v.push(s("v -9223372036854775808 0\n"));
            v.push(s("v 0\nv 0\n"));
            v.push(vec![b'v', b' ', 0xff, b'\n']);
            v.push(s(&format!("v {}0\n", "1 ".repeat(3000))));
        }
        PK::Aag | PK::Aig => {
            let m = if pk == PK::Aag { "aag" } else { "aig" };
            for h in [
                "1000000000000 1000000000000 0 0 0",
                "0 0 0 18446744073709551615 0",
                "4611686018427387904 0 4611686018427387904 0 0",
                "9223372036854775807 0 0 0 9223372036854775807",
                "0 0 0 0 0 18446744073709551615",
                "0 0 0 0 0 0 18446744073709551615",
                "0 0 0 0 0 0 0 3000000000",
                "0 0 0 0 0 0 0 18446744073709551615",
                "0 0 0 0 0 0 0 0 18446744073709551615",
                "100000000 0 100000000 0 0",
                "100000000 0 0 100000000 0",
                "100000000 0 0 0 100000000",
                "127 127 0 0 0",
                "32767 0 32767 0 0",
                "18446744073709551615 0 0 0 0",
                "18446744073709551616 0 0 0 0",
                "0 0 0 0 0 0 0 0 0 0",
                "00 0 0 0 0",
                "1 01 0 0 0",
                "0 1 0 0 0",
                "1 0 0 0 2",
                "1 1 1 0 0",
            ] {
                v.push(s(&format!("{m} {h}\n")));
            }
            v.push(s(&format!("{m} {big} 0 0 0 0\n")));
            v.push(s(m));
            v.push(s(&format!("{m} ")));
            v.push(s(&format!("{m} 1")));
            v.push(s(&format!("{m}\t1 0 0 0 0\n")));
            v.push(s(&format!("{m}  1 0 0 0 0\n")));
            v.push(s(&format!("{m} 1 0 0 0 0 \n")));
            v.push(s(&format!("{m} 1 0 0 0 0\r\n")));
            // justice sizes that add up to more than usize::MAX / huge sizes with no data
            v.push(s(&format!("{m} 0 0 0 0 0 0 0 2\n18446744073709551615\n1\n")));
            v.push(s(&format!("{m} 0 0 0 0 0 0 0 1\n18446744073709551615\n0\n")));
            v.push(s(&format!("{m} 0 0 0 0 0 0 0 1\n3000000000\n0\n")));
            // symbols for sections whose count is zero / index at the count
            for k in ["i", "l", "o", "b", "c", "j", "f"] {
                v.push(s(&format!("{m} 0 0 0 0 0\n{k}0 x\n")));
                v.push(s(&format!("{m} 1 0 1 0 0 1 1 1 1\n{}2\n2\n0\n2\n2\n{k}0 x\n{k}1 y\n",
                    if pk == PK::Aag { "2 2\n" } else { "2\n" })));
                v.push(s(&format!("{m} 1 0 0 0 0 1\n2\n{k}{big} x\n")));
            }
            if pk == PK::Aag {
                v.push(s("aag 1 1 0 0 0\n2\ni0 \u{00e9}\n"));
                v.push(b"aag 1 1 0 0 0\n2\ni0 \xff\n".to_vec());
                v.push(b"aag 1 1 0 0 0\n2\ni0 ok\nc\n\xff\n".to_vec());
                v.push(s("aag 1 1 0 0 0\n2\ni0 name"));
                v.push(s("aag 1 1 0 0 0\n2\nc\nno final newline"));
                v.push(s("aag 1 1 0 0 0\n2\nc"));
                v.push(s("aag 1 1 0 0 0\n2\nc\n"));
                v.push(s("aag 1 0 1 0 0\n2 3 4\n"));
                v.push(s("aag 1 0 1 0 0\n2 3 2\n"));
                v.push(s("aag 1 0 1 0 0\n2 3 1\n"));
                v.push(s("aag 1 0 1 0 0\n2 3 0\n"));
                v.push(s("aag 1 1 0 0 0\n3\n"));
                v.push(s("aag 1 1 0 0 0\n0\n"));
                v.push(s("aag 1 1 0 0 0\n4\n"));
                v.push(s("aag 1 0 0 1 0\n3\n"));
                v.push(s("aag 1 0 0 1 0\n4\n"));
            } else {
                // varints of length 1..12 with and without terminator
                for n in 1..=12usize {
                    let mut d = b"aig 1 0 0 0 1\n".to_vec();
                    d.extend(std::iter::repeat(0x80u8).take(n - 1));
                    d.push(0x01);
                    d.push(0x00);
                    v.push(d.clone());
                    let mut d = b"aig 1 0 0 0 1\n".to_vec();
                    d.extend(std::iter::repeat(0xffu8).take(n));
                    v.push(d);
                }
                v.push(b"aig 1 0 0 0 1\n\x03\x00".to_vec());
                v.push(b"aig 1 0 0 0 1\n\x01\x02".to_vec());
                v.push(b"aig 1 0 0 0 1\n\x00\x00".to_vec());
                v.push(b"aig 1 0 0 0 1\n\x01".to_vec());
                v.push(b"aig 1 0 1 0 0\n3 4\n".to_vec());
                v.push(b"aig 1 0 1 0 0\n3 2\n".to_vec());
                v.push(b"aig 3 2 0 1 1\n6\n\x02\x02i0 \xff\n".to_vec());
                v.push(b"aig 3 2 0 1 1\n6\n\x0a\x0ai0 x\n".to_vec());
            }
        }
        PK::Btor2 => {
            v.push(s(&format!("1 sort bitvec {big}\n")));
            v.push(s(&format!("{big} sort bitvec 1\n")));
            v.push(s("1 sort bitvec 8\n2 sort bitvec 99999999999999999999999\n"));
            v.push(s("1 sort bitvec 0\n"));
            v.push(s("0 sort bitvec 1\n"));
            v.push(s("01 sort bitvec 1\n"));
            v.push(s("1 sort bitvec 01\n"));
            v.push(s("1"));
            v.push(s("1 "));
            v.push(s("1 sort"));
            v.push(s("1 sort "));
            v.push(s("1 sort bitvec"));
            v.push(s("1 sort bitvec 8"));
            v.push(s("1 sort bitvec 8 "));
            v.push(s("1 sort bitvec 8 ;"));
            v.push(s("1 sort bitvec 8 sym"));
            v.push(s("1 sort bitvec 8 sym "));
            v.push(s("1 sort bitvec 8 sym ;c"));
            v.push(s("1 sort bitvec 8 sym x\n"));
            v.push(s("1 sort\tbitvec 8\n"));
            v.push(s("1  sort bitvec 8\n"));
            v.push(s("1 sort bitvec 8\r\n"));
            v.push(s("1 sortx bitvec 8\n"));
            v.push(s("1 abcdefghijklmnopqrstuvwxyz 8\n"));
            v.push(s("1 abcdefgh 8\n"));
            v.push(s("1 abcdefg 8\n"));
            v.push(s("1 constrain 2\n"));
            v.push(s("1 constraint 2\n"));
            v.push(s("1 constraintx 2\n"));
            v.push(s("1 justice 0\n"));
            v.push(s("1 justice 3 1 2\n"));
            v.push(s("1 justice 18446744073709551615 1\n"));
            v.push(s("1 justice 1000000000000 1 2 3\n"));
            v.push(s("1 const 1 2\n"));
            v.push(s("1 const 1 \n"));
            v.push(s("1 constd 1 -\n"));
            v.push(s("1 constd 1 --1\n"));
            v.push(s("1 consth 1 g\n"));
            v.push(s("1 uext 1 2 18446744073709551616\n"));
            v.push(s("1 slice 1 2 3\n"));
            v.push(s(";"));
            v.push(s(";\n;\n"));
            v.push(s("\n\n   \n"));
            v.push(vec![b'1', b' ', 0xff, b'\n']);
            v.push(s(&format!("1 justice 3000 {}\n", "7 ".repeat(2999))));
        }
    }
    v
}

/// Draws one input for `cfg`. `max` bounds generated sizes (clauses / lines / section sizes).
pub fn draw(rng: &mut Rng, cfg: PCfg, size: usize) -> Input {
    let w = rng.below(100);
    let pk = cfg.pk;
    if w < 10 {
        let doc = gen_doc(rng, cfg, size.min(12), 10);
        if let Some((bytes, _)) = crate::c06::limit_mutation(rng, pk, &doc) {
            return Input {
                bytes,
                class: Class::Limit,
                doc: None,
            };
        }
    }
    if w < 40 {
        let density = *rng.pick(&[0u64, 0, 15, 35, 60]);
        let doc = gen_doc(rng, cfg, size, density);
        Input {
            bytes: doc.bytes.clone(),
            class: Class::Generated,
            doc: Some(doc),
        }
    } else if w < 75 {
        let base = if rng.chance(1, 4) {
            let s = seeds(pk);
            s[rng.usize(s.len())].as_bytes().to_vec()
        } else if rng.chance(1, 8) {
            let h = hostile(pk);
            h[rng.usize(h.len())].clone()
        } else {
            gen_doc(rng, cfg, size, 20).bytes
        };
        let other = gen_doc(rng, cfg, size.min(8), 0).bytes;
        Input {
            bytes: gen::mutate(rng, pk, &base, &other),
            class: Class::Mutated,
            doc: None,
        }
    } else if w < 85 {
        Input {
            bytes: gen::arbitrary(rng, pk, 200),
            class: Class::Arbitrary,
            doc: None,
        }
    } else if w < 93 {
        let h = hostile(pk);
        Input {
            bytes: h[rng.usize(h.len())].clone(),
            class: Class::Hostile,
            doc: None,
        }
    } else {
        let s = seeds(pk);
        Input {
            bytes: s[rng.usize(s.len())].as_bytes().to_vec(),
            class: Class::Seed,
            doc: None,
        }
    }
}
