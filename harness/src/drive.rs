//! Uniform driver for the seven parsers: runs one parser over an instrumented source and renders
//! every returned item canonically (numbers in decimal via Display of the literal type), handing
//! each item to a callback at the moment the parser returns it.

use crate::json::hex;
use crate::src::Src;
use flussab::text::LineReader;
use flussab::DeferredReader;
use flussab_aiger::aig::{Symbol, SymbolTarget};
use flussab_btor2::btor2 as b2;
use std::fmt::Display;
use std::fmt::Write as _;
use std::io::{BufRead, BufReader, Read};

#[derive(Clone, Copy, PartialEq, Eq, Debug, Hash)]
pub enum PK {
    Cnf,
    Wcnf,
    Gcnf,
    Log,
    Aag,
    Aig,
    Btor2,
}

pub const ALL_PK: [PK; 7] = [PK::Cnf, PK::Wcnf, PK::Gcnf, PK::Log, PK::Aag, PK::Aig, PK::Btor2];

impl PK {
    pub fn name(self) -> &'static str {
        match self {
            PK::Cnf => "cnf",
            PK::Wcnf => "wcnf",
            PK::Gcnf => "gcnf",
            PK::Log => "log",
            PK::Aag => "aag",
            PK::Aig => "aig",
            PK::Btor2 => "btor2",
        }
    }
    pub fn from_name(s: &str) -> PK {
        *ALL_PK.iter().find(|p| p.name() == s).expect("parser kind")
    }
    pub fn is_dimacs(self) -> bool {
        matches!(self, PK::Cnf | PK::Wcnf | PK::Gcnf)
    }
    pub fn is_aiger(self) -> bool {
        matches!(self, PK::Aag | PK::Aig)
    }
    pub fn n_lit_types(self) -> u8 {
        if self == PK::Btor2 {
            1
        } else {
            5
        }
    }
    pub fn lit_name(self, lt: u8) -> &'static str {
        match self {
            PK::Btor2 => "-",
            PK::Aag | PK::Aig => ["u8", "u16", "u32", "u64", "usize"][lt as usize],
            _ => ["i8", "i16", "i32", "i64", "isize"][lt as usize],
        }
    }
}

#[derive(Clone, Copy, Debug, PartialEq, Eq, Hash)]
pub struct PCfg {
    pub pk: PK,
    /// literal type index 0..5 (i8,i16,i32,i64,isize / u8,u16,u32,u64,usize)
    pub lt: u8,
    /// ignore_header (DIMACS family) / ignore_unknown_lines (solver log)
    pub flag: bool,
    /// AIGER: use the streaming section readers instead of parse()
    pub sections: bool,
    /// AIGER section readers: two bits per section (inputs, latches, outputs, bad, constraints, justice sizes,
    /// justice literals, fairness, gates): 0 = read every entry, 1 = read one entry then move on to the next
    /// section (the reader skips the rest itself), 2 = move on at once
    pub skip: u32,
}

impl PCfg {
    pub fn describe(&self) -> String {
        format!(
            "{}<{}>{}{}",
            self.pk.name(),
            self.pk.lit_name(self.lt),
            if self.flag {
                if self.pk == PK::Log {
                    "+ignore_unknown_lines"
                } else if self.pk.is_dimacs() {
                    "+ignore_header"
                } else {
                    ""
                }
            } else {
                ""
            },
            if self.pk.is_aiger() {
                if self.sections && self.skip != 0 {
                    "/sections(some skipped)"
                } else if self.sections {
                    "/sections"
                } else {
                    "/parse()"
                }
            } else {
                ""
            }
        )
    }
    pub fn code(&self) -> u64 {
        (self.pk as u64)
            | (self.lt as u64) << 4
            | (self.flag as u64) << 8
            | (self.sections as u64) << 9
            | (self.skip as u64) << 10
    }
}

#[derive(Clone, Debug, PartialEq, Eq)]
pub enum Outcome {
    End,
    Syntax { line: usize, col: usize, msg: String },
    Io(String),
}

impl Outcome {
    /// verdict-relevant part: kind + location (message text is not part of any property)
    pub fn key(&self) -> String {
        match self {
            Outcome::End => "End".into(),
            Outcome::Syntax { line, col, .. } => format!("Syntax({}:{})", line, col),
            Outcome::Io(_) => "Io".into(),
        }
    }
    pub fn describe(&self) -> String {
        match self {
            Outcome::End => "End".into(),
            Outcome::Syntax { line, col, msg } => format!("Syntax({}:{}: {})", line, col, msg),
            Outcome::Io(m) => format!("Io({})", m),
        }
    }
    pub fn is_syntax(&self) -> bool {
        matches!(self, Outcome::Syntax { .. })
    }
}

#[derive(Clone, Copy, Debug, PartialEq, Eq)]
pub enum Ctor {
    /// Parser::new(LineReader::new(reader with set_chunk_size(c)))
    Chunk(usize),
    FromRead,
    FromBoxed,
    /// from_buf_reader with a BufReader of the given capacity whose buffer was already filled
    FromBufReader(usize),
    /// Parser::new(LineReader::new(reader)) on a reader (chunk size c) that has already been advanced
    /// over a p-byte preamble which is not part of the document ("line 1 starts at the current position")
    AfterPreamble(usize, usize),
    /// Parser::new on a reader (chunk size c) that has already looked ahead to the end of the source
    /// (a caller sniffing the format / pre-buffering): data and a possible I/O error are parked in it
    Prefetched(usize),
}

impl Ctor {
    pub fn describe(&self) -> String {
        match self {
            Ctor::Chunk(c) => format!("new(chunk={})", c),
            Ctor::FromRead => "from_read".into(),
            Ctor::FromBoxed => "from_boxed_dyn_read".into(),
            Ctor::FromBufReader(c) => format!("from_buf_reader(cap={},prefilled)", c),
            Ctor::AfterPreamble(p, c) => format!("new(reader advanced over a {}-byte preamble, chunk={})", p, c),
            Ctor::Prefetched(c) => format!("new(reader that already looked ahead to the end, chunk={})", c),
        }
    }
}

macro_rules! conv_err {
    ($name:ident, $krate:ident) => {
        fn $name(e: $krate::ParseError) -> Outcome {
            // what a user prints; exercised (under the sanitizers too), no verdict hangs on its format
            std::hint::black_box(e.to_string());
            match *e {
                $krate::InnerParseError::SyntaxError(s) => Outcome::Syntax {
                    line: s.location.line,
                    col: s.location.column,
                    msg: s.msg,
                },
                $krate::InnerParseError::IoError(e) => Outcome::Io(e.to_string()),
            }
        }
    };
}
conv_err!(cnf_err, flussab_cnf);
conv_err!(aig_err, flussab_aiger);
conv_err!(btor_err, flussab_btor2);

fn line_reader(src: Src, ctor: Ctor) -> Option<LineReader<'static>> {
    match ctor {
        Ctor::Chunk(c) => {
            let mut r = DeferredReader::from_read(src);
            r.set_chunk_size(c);
            Some(if c % 2 == 1 { LineReader::from(r) } else { LineReader::new(r) })
        }
        Ctor::Prefetched(c) => {
            let mut r = DeferredReader::from_read(src);
            r.set_chunk_size(c);
            while r.request_more() {}
            Some(LineReader::new(r))
        }
        Ctor::AfterPreamble(p, c) => {
            // the preamble comes from a Cursor chained in front of the monitored source: Chain never
            // mixes both in one read and request(p) stops once p bytes are there, so the source has not
            // been touched when the parser starts
            let pre: Vec<u8> = (0..p).map(|i| b"%% some tool's banner line\n"[i % 27]).collect();
            let mut r = DeferredReader::from_read(std::io::Cursor::new(pre).chain(src));
            r.set_chunk_size(c);
            let got = r.request(p).len();
            assert!(got >= p, "harness: preamble not delivered");
            r.advance(p);
            Some(if (p + c) % 2 == 1 { LineReader::from(r) } else { LineReader::new(r) })
        }
        _ => None,
    }
}

fn prefilled(src: Src, cap: usize) -> BufReader<Src> {
    // capacity 0 is legal: such a BufReader cannot hold anything and is handed over unused
    let mut br = BufReader::with_capacity(cap, src);
    if cap > 0 {
        let _ = br.fill_buf();
    }
    br
}

pub fn lits_str<L: Display>(out: &mut String, lits: &[L]) {
    for (i, l) in lits.iter().enumerate() {
        if i > 0 {
            out.push(' ');
        }
        let _ = write!(out, "{}", l);
    }
}

// ------------------------------------------------------------------------------ DIMACS family

macro_rules! dimacs_runner {
    ($fname:ident, $module:ident, $hdr:expr, $clause:expr) => {
        fn $fname<L: flussab_cnf::Dimacs + Display>(
            flag: bool,
            ctor: Ctor,
            src: Src,
            on_item: &mut dyn FnMut(&str),
        ) -> Outcome {
            use flussab_cnf::$module::{Config, Parser};
            let cfg = Config::default().ignore_header(flag);
            let p = match ctor {
                Ctor::Chunk(_) | Ctor::AfterPreamble(..) | Ctor::Prefetched(_) => Parser::<L>::new(line_reader(src, ctor).unwrap(), cfg),
                Ctor::FromRead => Parser::<L>::from_read(src, cfg),
                Ctor::FromBoxed => Parser::<L>::from_boxed_dyn_read(Box::new(src), cfg),
                Ctor::FromBufReader(c) => Parser::<L>::from_buf_reader(prefilled(src, c), cfg),
            };
            let mut p = match p {
                Ok(p) => p,
                Err(e) => return cnf_err(e),
            };
            let mut s = String::new();
            if let Some(h) = p.header() {
                #[allow(clippy::redundant_closure_call)]
                ($hdr)(&mut s, &h);
                on_item(&s);
            }
            loop {
                match p.next_clause() {
                    Ok(Some(c)) => {
                        s.clear();
                        #[allow(clippy::redundant_closure_call)]
                        ($clause)(&mut s, &c);
                        on_item(&s);
                    }
                    Ok(None) => {
                        // the end is final: asking again must not produce another clause
                        if let Ok(Some(_)) = p.next_clause() {
                            on_item("ITEM-AFTER-THE-END-WAS-REPORTED");
                        }
                        return Outcome::End;
                    }
                    Err(e) => {
                        let o = cnf_err(e);
                        if matches!(o, Outcome::Io(_)) {
                            // a caller that asks again after an I/O error: the failed source must not be
                            // touched again (the monitors look at the source's call log)
                            let _ = p.next_clause();
                        }
                        return o;
                    }
                }
            }
        }
    };
}

dimacs_runner!(
    run_cnf,
    cnf,
    |s: &mut String, h: &flussab_cnf::cnf::Header| {
        let _ = write!(s, "H {} {}", h.var_count, h.clause_count);
    },
    |s: &mut String, c: &&[L]| {
        s.push_str("C ");
        lits_str(s, c);
    }
);
dimacs_runner!(
    run_wcnf,
    wcnf,
    |s: &mut String, h: &flussab_cnf::wcnf::Header| {
        let _ = write!(s, "H {} {} {}", h.var_count, h.clause_count, h.top_weight);
    },
    |s: &mut String, c: &(u64, &[L])| {
        let _ = write!(s, "W {}|", c.0);
        lits_str(s, c.1);
    }
);
dimacs_runner!(
    run_gcnf,
    gcnf,
    |s: &mut String, h: &flussab_cnf::gcnf::Header| {
        let _ = write!(s, "H {} {} {}", h.var_count, h.clause_count, h.group_count);
    },
    |s: &mut String, c: &(usize, &[L])| {
        let _ = write!(s, "G {}|", c.0);
        lits_str(s, c.1);
    }
);

fn run_log<L: flussab_cnf::Dimacs + Display>(
    flag: bool,
    ctor: Ctor,
    src: Src,
    on_item: &mut dyn FnMut(&str),
) -> Outcome {
    use flussab_cnf::sat_solver_log::{parse_log, Config};
    let mut lr = match ctor {
        Ctor::Chunk(_) | Ctor::AfterPreamble(..) | Ctor::Prefetched(_) => line_reader(src, ctor).unwrap(),
        Ctor::FromRead => LineReader::new(DeferredReader::from_read(src)),
        Ctor::FromBoxed => LineReader::new(DeferredReader::from_boxed_dyn_read(Box::new(src))),
        Ctor::FromBufReader(c) => LineReader::new(DeferredReader::from_buf_reader(prefilled(src, c))),
    };
    match parse_log::<L>(&mut lr, Config::default().ignore_unknown_lines(flag)) {
        Ok(log) => {
            let mut s = String::new();
            let _ = write!(
                s,
                "LOG sat={} a=",
                match log.satisfiable {
                    None => "unknown",
                    Some(true) => "true",
                    Some(false) => "false",
                }
            );
            lits_str(&mut s, &log.assignment);
            on_item(&s);
            Outcome::End
        }
        Err(e) => cnf_err(e),
    }
}

// ------------------------------------------------------------------------------ AIGER

pub fn sym_str(out: &mut String, sym: &Symbol) {
    let (c, i) = match sym.target {
        SymbolTarget::Input(i) => ('i', i),
        SymbolTarget::Output(i) => ('o', i),
        SymbolTarget::Latch(i) => ('l', i),
        SymbolTarget::BadStateProperty(i) => ('b', i),
        SymbolTarget::InvariantConstraint(i) => ('c', i),
        SymbolTarget::JusticeProperty(i) => ('j', i),
        SymbolTarget::FairnessConstraint(i) => ('f', i),
    };
    let _ = write!(out, "SYM {}{} {}", c, i, hex(sym.name.as_bytes()));
}

fn init_str(i: Option<bool>) -> &'static str {
    match i {
        Some(false) => "0",
        Some(true) => "1",
        None => "x",
    }
}

macro_rules! emit {
    ($on:expr, $s:expr, $($arg:tt)*) => {{
        $s.clear();
        let _ = write!($s, $($arg)*);
        $on(&$s);
    }};
}

macro_rules! tri {
    ($e:expr) => {
        match $e {
            Ok(v) => v,
            Err(e) => return aig_err(e),
        }
    };
}

fn aag_header_str(h: &flussab_aiger::ascii::Header) -> String {
    format!(
        "H {} {} {} {} {} {} {} {} {}",
        h.max_var_index,
        h.input_count,
        h.latch_count,
        h.output_count,
        h.and_gate_count,
        h.bad_state_property_count,
        h.invariant_constraint_count,
        h.justice_property_count,
        h.fairness_constraint_count
    )
}

fn aig_header_str(h: &flussab_aiger::binary::Header) -> String {
    format!(
        "H {} {} {} {} {} {} {} {} {}",
        h.max_var_index,
        h.input_count,
        h.latch_count,
        h.output_count,
        h.and_gate_count,
        h.bad_state_property_count,
        h.invariant_constraint_count,
        h.justice_property_count,
        h.fairness_constraint_count
    )
}

fn run_aag<L: flussab_aiger::Lit + Display>(
    sections: bool,
    skip: u32,
    ctor: Ctor,
    src: Src,
    on_item: &mut dyn FnMut(&str),
) -> Outcome {
    use flussab_aiger::ascii::{Config, Parser};
    let cfg = Config::default();
    let p = match ctor {
        Ctor::Chunk(_) | Ctor::AfterPreamble(..) | Ctor::Prefetched(_) => Parser::<L>::new(line_reader(src, ctor).unwrap(), cfg),
        Ctor::FromRead => Parser::<L>::from_read(src, cfg),
        Ctor::FromBoxed => Parser::<L>::from_boxed_dyn_read(Box::new(src), cfg),
        Ctor::FromBufReader(c) => Parser::<L>::from_buf_reader(prefilled(src, c), cfg),
    };
    let p = tri!(p);
    let mut s = aag_header_str(p.header());
    on_item(&s);
    if !sections {
        let aig = tri!(p.parse());
        for x in &aig.inputs {
            emit!(on_item, s, "IN {}", x);
        }
        for l in &aig.latches {
            emit!(on_item, s, "LATCH {} {} {}", l.state, l.next_state, init_str(l.initialization));
        }
        for x in &aig.outputs {
            emit!(on_item, s, "OUT {}", x);
        }
        for x in &aig.bad_state_properties {
            emit!(on_item, s, "BAD {}", x);
        }
        for x in &aig.invariant_constraints {
            emit!(on_item, s, "CONSTR {}", x);
        }
        for j in &aig.justice_properties {
            emit!(on_item, s, "JSIZE {}", j.len());
        }
        for j in &aig.justice_properties {
            for x in j {
                emit!(on_item, s, "JLIT {}", x);
            }
        }
        for x in &aig.fairness_constraints {
            emit!(on_item, s, "FAIR {}", x);
        }
        for g in &aig.and_gates {
            emit!(on_item, s, "AND {} {} {}", g.output, g.inputs[0], g.inputs[1]);
        }
        for sym in &aig.symbols {
            s.clear();
            sym_str(&mut s, sym);
            on_item(&s);
        }
        if let Some(c) = &aig.comment {
            emit!(on_item, s, "COMMENT {}", hex(c.as_bytes()));
        }
        return Outcome::End;
    }
    let first_header = s.clone();
    let mut r = tri!(p.inputs());
    // the section readers give access to the parser (Deref): the header seen there is the same one
    if aag_header_str(r.header()) != first_header {
        on_item("HEADER-SEEN-THROUGH-SECTION-READER-DIFFERS");
    }
    let mode = (skip >> 0) & 3;
    let mut n = 0;
    while mode != 2 {
        let Some(x) = tri!(r.next_input()) else {
            // the end of a section is final
            if let Ok(Some(_)) = r.next_input() {
                on_item("ITEM-AFTER-THE-END-OF-THE-SECTION-WAS-REPORTED");
            }
            break;
        };
        emit!(on_item, s, "IN {}", x);
        n += 1;
        if mode == 1 && n >= 1 {
            break;
        }
    }
    let mut r = tri!(r.latches());
    let mode = (skip >> 2) & 3;
    let mut n = 0;
    while mode != 2 {
        let Some(l) = tri!(r.next_latch()) else {
            // the end of a section is final
            if let Ok(Some(_)) = r.next_latch() {
                on_item("ITEM-AFTER-THE-END-OF-THE-SECTION-WAS-REPORTED");
            }
            break;
        };
        emit!(on_item, s, "LATCH {} {} {}", l.state, l.next_state, init_str(l.initialization));
        n += 1;
        if mode == 1 && n >= 1 {
            break;
        }
    }
    let mut r = tri!(r.outputs());
    let mode = (skip >> 4) & 3;
    let mut n = 0;
    while mode != 2 {
        let Some(x) = tri!(r.next_output()) else {
            // the end of a section is final
            if let Ok(Some(_)) = r.next_output() {
                on_item("ITEM-AFTER-THE-END-OF-THE-SECTION-WAS-REPORTED");
            }
            break;
        };
        emit!(on_item, s, "OUT {}", x);
        n += 1;
        if mode == 1 && n >= 1 {
            break;
        }
    }
    let mut r = tri!(r.bad_state_properties());
    let mode = (skip >> 6) & 3;
    let mut n = 0;
    while mode != 2 {
        let Some(x) = tri!(r.next_bad_state_property()) else {
            // the end of a section is final
            if let Ok(Some(_)) = r.next_bad_state_property() {
                on_item("ITEM-AFTER-THE-END-OF-THE-SECTION-WAS-REPORTED");
            }
            break;
        };
        emit!(on_item, s, "BAD {}", x);
        n += 1;
        if mode == 1 && n >= 1 {
            break;
        }
    }
    let mut r = tri!(r.invariant_constraints());
    let mode = (skip >> 8) & 3;
    let mut n = 0;
    while mode != 2 {
        let Some(x) = tri!(r.next_invariant_constraint()) else {
            // the end of a section is final
            if let Ok(Some(_)) = r.next_invariant_constraint() {
                on_item("ITEM-AFTER-THE-END-OF-THE-SECTION-WAS-REPORTED");
            }
            break;
        };
        emit!(on_item, s, "CONSTR {}", x);
        n += 1;
        if mode == 1 && n >= 1 {
            break;
        }
    }
    let mut r = tri!(r.justice_properties());
    let mode = (skip >> 10) & 3;
    let mut n = 0;
    while mode != 2 {
        let Some(x) = tri!(r.next_justice_property_size()) else {
            // the end of a section is final
            if let Ok(Some(_)) = r.next_justice_property_size() {
                on_item("ITEM-AFTER-THE-END-OF-THE-SECTION-WAS-REPORTED");
            }
            break;
        };
        emit!(on_item, s, "JSIZE {}", x);
        n += 1;
        if mode == 1 && n >= 1 {
            break;
        }
    }
    let mut r = tri!(r.justice_property_local_fairness_constraints());
    let mode = (skip >> 12) & 3;
    let mut n = 0;
    while mode != 2 {
        let Some(x) = tri!(r.next_justice_property_local_fairness_constraint()) else {
            // the end of a section is final
            if let Ok(Some(_)) = r.next_justice_property_local_fairness_constraint() {
                on_item("ITEM-AFTER-THE-END-OF-THE-SECTION-WAS-REPORTED");
            }
            break;
        };
        emit!(on_item, s, "JLIT {}", x);
        n += 1;
        if mode == 1 && n >= 1 {
            break;
        }
    }
    let mut r = tri!(r.fairness_constraints());
    let mode = (skip >> 14) & 3;
    let mut n = 0;
    while mode != 2 {
        let Some(x) = tri!(r.next_fairness_constraint()) else {
            // the end of a section is final
            if let Ok(Some(_)) = r.next_fairness_constraint() {
                on_item("ITEM-AFTER-THE-END-OF-THE-SECTION-WAS-REPORTED");
            }
            break;
        };
        emit!(on_item, s, "FAIR {}", x);
        n += 1;
        if mode == 1 && n >= 1 {
            break;
        }
    }
    let mut r = tri!(r.and_gates());
    let mode = (skip >> 16) & 3;
    let mut n = 0;
    while mode != 2 {
        let Some(g) = tri!(r.next_and_gate()) else {
            // the end of a section is final
            if let Ok(Some(_)) = r.next_and_gate() {
                on_item("ITEM-AFTER-THE-END-OF-THE-SECTION-WAS-REPORTED");
            }
            break;
        };
        emit!(on_item, s, "AND {} {} {}", g.output, g.inputs[0], g.inputs[1]);
        n += 1;
        if mode == 1 && n >= 1 {
            break;
        }
    }
    let mut r = tri!(r.symbols());
    loop {
        match r.next_symbol() {
            Ok(Some(sym)) => {
                s.clear();
                sym_str(&mut s, &sym);
                on_item(&s);
            }
            Ok(None) => break,
            Err(e) => return aig_err(e),
        }
    }
    match r.comment() {
        Ok(Some(c)) => {
            let h = hex(c.as_bytes());
            emit!(on_item, s, "COMMENT {}", h);
        }
        Ok(None) => {}
        Err(e) => return aig_err(e),
    }
    Outcome::End
}

fn run_aig<L: flussab_aiger::Lit + Display>(
    sections: bool,
    skip: u32,
    ctor: Ctor,
    src: Src,
    on_item: &mut dyn FnMut(&str),
) -> Outcome {
    use flussab_aiger::binary::{Config, Parser};
    let cfg = Config::default();
    let p = match ctor {
        Ctor::Chunk(_) | Ctor::AfterPreamble(..) | Ctor::Prefetched(_) => Parser::<L>::new(line_reader(src, ctor).unwrap(), cfg),
        Ctor::FromRead => Parser::<L>::from_read(src, cfg),
        Ctor::FromBoxed => Parser::<L>::from_boxed_dyn_read(Box::new(src), cfg),
        Ctor::FromBufReader(c) => Parser::<L>::from_buf_reader(prefilled(src, c), cfg),
    };
    let p = tri!(p);
    let mut s = aig_header_str(p.header());
    on_item(&s);
    if !sections {
        let aig = tri!(p.parse());
        for l in &aig.latches {
            emit!(on_item, s, "LATCH {} {}", l.next_state, init_str(l.initialization));
        }
        for x in &aig.outputs {
            emit!(on_item, s, "OUT {}", x);
        }
        for x in &aig.bad_state_properties {
            emit!(on_item, s, "BAD {}", x);
        }
        for x in &aig.invariant_constraints {
            emit!(on_item, s, "CONSTR {}", x);
        }
        for j in &aig.justice_properties {
            emit!(on_item, s, "JSIZE {}", j.len());
        }
        for j in &aig.justice_properties {
            for x in j {
                emit!(on_item, s, "JLIT {}", x);
            }
        }
        for x in &aig.fairness_constraints {
            emit!(on_item, s, "FAIR {}", x);
        }
        for g in &aig.and_gates {
            emit!(on_item, s, "AND {} {}", g.inputs[0], g.inputs[1]);
        }
        for sym in &aig.symbols {
            s.clear();
            sym_str(&mut s, sym);
            on_item(&s);
        }
        if let Some(c) = &aig.comment {
            emit!(on_item, s, "COMMENT {}", hex(c.as_bytes()));
        }
        return Outcome::End;
    }
    let mut r = tri!(p.latches());
    let mode = (skip >> 2) & 3;
    let mut n = 0;
    while mode != 2 {
        let Some(l) = tri!(r.next_latch()) else {
            // the end of a section is final
            if let Ok(Some(_)) = r.next_latch() {
                on_item("ITEM-AFTER-THE-END-OF-THE-SECTION-WAS-REPORTED");
            }
            break;
        };
        emit!(on_item, s, "LATCH {} {}", l.next_state, init_str(l.initialization));
        n += 1;
        if mode == 1 && n >= 1 {
            break;
        }
    }
    let mut r = tri!(r.outputs());
    let mode = (skip >> 4) & 3;
    let mut n = 0;
    while mode != 2 {
        let Some(x) = tri!(r.next_output()) else {
            // the end of a section is final
            if let Ok(Some(_)) = r.next_output() {
                on_item("ITEM-AFTER-THE-END-OF-THE-SECTION-WAS-REPORTED");
            }
            break;
        };
        emit!(on_item, s, "OUT {}", x);
        n += 1;
        if mode == 1 && n >= 1 {
            break;
        }
    }
    let mut r = tri!(r.bad_state_properties());
    let mode = (skip >> 6) & 3;
    let mut n = 0;
    while mode != 2 {
        let Some(x) = tri!(r.next_bad_state_property()) else {
            // the end of a section is final
            if let Ok(Some(_)) = r.next_bad_state_property() {
                on_item("ITEM-AFTER-THE-END-OF-THE-SECTION-WAS-REPORTED");
            }
            break;
        };
        emit!(on_item, s, "BAD {}", x);
        n += 1;
        if mode == 1 && n >= 1 {
            break;
        }
    }
    let mut r = tri!(r.invariant_constraints());
    let mode = (skip >> 8) & 3;
    let mut n = 0;
    while mode != 2 {
        let Some(x) = tri!(r.next_invariant_constraint()) else {
            // the end of a section is final
            if let Ok(Some(_)) = r.next_invariant_constraint() {
                on_item("ITEM-AFTER-THE-END-OF-THE-SECTION-WAS-REPORTED");
            }
            break;
        };
        emit!(on_item, s, "CONSTR {}", x);
        n += 1;
        if mode == 1 && n >= 1 {
            break;
        }
    }
    let mut r = tri!(r.justice_properties());
    let mode = (skip >> 10) & 3;
    let mut n = 0;
    while mode != 2 {
        let Some(x) = tri!(r.next_justice_property_size()) else {
            // the end of a section is final
            if let Ok(Some(_)) = r.next_justice_property_size() {
                on_item("ITEM-AFTER-THE-END-OF-THE-SECTION-WAS-REPORTED");
            }
            break;
        };
        emit!(on_item, s, "JSIZE {}", x);
        n += 1;
        if mode == 1 && n >= 1 {
            break;
        }
    }
    let mut r = tri!(r.justice_property_local_fairness_constraints());
    let mode = (skip >> 12) & 3;
    let mut n = 0;
    while mode != 2 {
        let Some(x) = tri!(r.next_justice_property_local_fairness_constraint()) else {
            // the end of a section is final
            if let Ok(Some(_)) = r.next_justice_property_local_fairness_constraint() {
                on_item("ITEM-AFTER-THE-END-OF-THE-SECTION-WAS-REPORTED");
            }
            break;
        };
        emit!(on_item, s, "JLIT {}", x);
        n += 1;
        if mode == 1 && n >= 1 {
            break;
        }
    }
    let mut r = tri!(r.fairness_constraints());
    let mode = (skip >> 14) & 3;
    let mut n = 0;
    while mode != 2 {
        let Some(x) = tri!(r.next_fairness_constraint()) else {
            // the end of a section is final
            if let Ok(Some(_)) = r.next_fairness_constraint() {
                on_item("ITEM-AFTER-THE-END-OF-THE-SECTION-WAS-REPORTED");
            }
            break;
        };
        emit!(on_item, s, "FAIR {}", x);
        n += 1;
        if mode == 1 && n >= 1 {
            break;
        }
    }
    let mut r = tri!(r.and_gates());
    let mode = (skip >> 16) & 3;
    let mut n = 0;
    while mode != 2 {
        let Some(g) = tri!(r.next_and_gate()) else {
            // the end of a section is final
            if let Ok(Some(_)) = r.next_and_gate() {
                on_item("ITEM-AFTER-THE-END-OF-THE-SECTION-WAS-REPORTED");
            }
            break;
        };
        emit!(on_item, s, "AND {} {}", g.inputs[0], g.inputs[1]);
        n += 1;
        if mode == 1 && n >= 1 {
            break;
        }
    }
    let mut r = tri!(r.symbols());
    loop {
        match r.next_symbol() {
            Ok(Some(sym)) => {
                s.clear();
                sym_str(&mut s, &sym);
                on_item(&s);
            }
            Ok(None) => break,
            Err(e) => return aig_err(e),
        }
    }
    match r.comment() {
        Ok(Some(c)) => {
            let h = hex(c.as_bytes());
            emit!(on_item, s, "COMMENT {}", h);
        }
        Ok(None) => {}
        Err(e) => return aig_err(e),
    }
    Outcome::End
}

// ------------------------------------------------------------------------------ BTOR2

pub fn unary_name(op: &b2::UnaryOp) -> String {
    match op {
        b2::UnaryOp::Uext(w) => format!("uext[{}]", w),
        b2::UnaryOp::Sext(w) => format!("sext[{}]", w),
        b2::UnaryOp::Slice(u, l) => format!("slice[{},{}]", u, l),
        b2::UnaryOp::Not => "not".into(),
        b2::UnaryOp::Inc => "inc".into(),
        b2::UnaryOp::Dec => "dec".into(),
        b2::UnaryOp::Neg => "neg".into(),
        b2::UnaryOp::Redand => "redand".into(),
        b2::UnaryOp::Redor => "redor".into(),
        b2::UnaryOp::Redxor => "redxor".into(),
    }
}

/// Canonical rendering of a BTOR2 line from its fields (operators by their Debug names, lower-cased,
/// which is how the format spells them).
pub fn btor_line_str(out: &mut String, line: &b2::Line) {
    match line {
        b2::Line::Comment(c) => {
            let _ = write!(out, "COMMENT {}", hex(c));
        }
        b2::Line::Node(n) => {
            let _ = write!(out, "N {} ", n.id.0);
            match &n.variant {
                b2::NodeVariant::Sort(b2::Sort::BitVec(w)) => {
                    let _ = write!(out, "sort bitvec {}", w);
                }
                b2::NodeVariant::Sort(b2::Sort::Array(b2::Array(d, c))) => {
                    let _ = write!(out, "sort array {} {}", d.0, c.0);
                }
                b2::NodeVariant::Value(v) => match &v.variant {
                    b2::ValueVariant::Const(c) => match c {
                        b2::Const::Binary(x) => {
                            let _ = write!(out, "const {} {}", v.sort.0, x);
                        }
                        b2::Const::Decimal(x) => {
                            let _ = write!(out, "constd {} {}", v.sort.0, x);
                        }
                        b2::Const::Hex(x) => {
                            let _ = write!(out, "consth {} {}", v.sort.0, x);
                        }
                        b2::Const::One => {
                            let _ = write!(out, "one {}", v.sort.0);
                        }
                        b2::Const::Ones => {
                            let _ = write!(out, "ones {}", v.sort.0);
                        }
                        b2::Const::Zero => {
                            let _ = write!(out, "zero {}", v.sort.0);
                        }
                    },
                    b2::ValueVariant::Input => {
                        let _ = write!(out, "input {}", v.sort.0);
                    }
                    b2::ValueVariant::State => {
                        let _ = write!(out, "state {}", v.sort.0);
                    }
                    b2::ValueVariant::Op(b2::Op::Unary(op, a)) => {
                        let _ = write!(out, "{} {} {}", unary_name(op), v.sort.0, a.0);
                    }
                    b2::ValueVariant::Op(b2::Op::Binary(op, [a, b])) => {
                        let _ = write!(
                            out,
                            "{} {} {} {}",
                            format!("{:?}", op).to_lowercase(),
                            v.sort.0,
                            a.0,
                            b.0
                        );
                    }
                    b2::ValueVariant::Op(b2::Op::Ternary(op, [a, b, c])) => {
                        let _ = write!(
                            out,
                            "{} {} {} {} {}",
                            format!("{:?}", op).to_lowercase(),
                            v.sort.0,
                            a.0,
                            b.0,
                            c.0
                        );
                    }
                },
                b2::NodeVariant::Assignment(a) => {
                    let _ = write!(
                        out,
                        "{} {} {} {}",
                        match a.kind {
                            b2::AssignmentKind::Init => "init",
                            b2::AssignmentKind::Next => "next",
                        },
                        a.sort.0,
                        a.state.0,
                        a.value.0
                    );
                }
                b2::NodeVariant::Output(b2::Output::SingleValue(o)) => {
                    let _ = write!(
                        out,
                        "{} {}",
                        match o.kind {
                            b2::SingleValueOutputKind::Output => "output",
                            b2::SingleValueOutputKind::Bad => "bad",
                            b2::SingleValueOutputKind::Constraint => "constraint",
                            b2::SingleValueOutputKind::Fair => "fair",
                        },
                        o.value.0
                    );
                }
                b2::NodeVariant::Output(b2::Output::Justice(ns)) => {
                    let _ = write!(out, "justice {}", ns.len());
                    for n in ns.iter() {
                        let _ = write!(out, " {}", n.0);
                    }
                }
            }
            if let Some(s) = n.symbol {
                let _ = write!(out, " |sym={}", hex(s));
            }
            if let Some(c) = n.comment {
                let _ = write!(out, " |com={}", hex(c));
            }
        }
    }
}

fn run_btor2(ctor: Ctor, src: Src, on_item: &mut dyn FnMut(&str)) -> Outcome {
    use flussab_btor2::{Config, Parser};
    let cfg = Config::default();
    let p = match ctor {
        Ctor::Chunk(_) | Ctor::AfterPreamble(..) | Ctor::Prefetched(_) => Parser::new(line_reader(src, ctor).unwrap(), cfg),
        Ctor::FromRead => Parser::from_read(src, cfg),
        Ctor::FromBoxed => Parser::from_boxed_dyn_read(Box::new(src), cfg),
        Ctor::FromBufReader(c) => Parser::from_buf_reader(prefilled(src, c), cfg),
    };
    let mut p = match p {
        Ok(p) => p,
        Err(e) => return btor_err(e),
    };
    let mut s = String::new();
    loop {
        match p.next_line() {
            Ok(Some(line)) => {
                s.clear();
                btor_line_str(&mut s, &line);
                on_item(&s);
            }
            Ok(None) => {
                if let Ok(Some(_)) = p.next_line() {
                    on_item("ITEM-AFTER-THE-END-WAS-REPORTED");
                }
                return Outcome::End;
            }
            Err(e) => {
                let o = btor_err(e);
                if matches!(o, Outcome::Io(_)) {
                    let _ = p.next_line();
                }
                return o;
            }
        }
    }
}

// ------------------------------------------------------------------------------ dispatch

macro_rules! by_dimacs_type {
    ($f:ident, $lt:expr, $($args:expr),*) => {
        match $lt {
            0 => $f::<i8>($($args),*),
            1 => $f::<i16>($($args),*),
            2 => $f::<i32>($($args),*),
            3 => $f::<i64>($($args),*),
            _ => $f::<isize>($($args),*),
        }
    };
}
macro_rules! by_aiger_type {
    ($f:ident, $lt:expr, $($args:expr),*) => {
        match $lt {
            0 => $f::<u8>($($args),*),
            1 => $f::<u16>($($args),*),
            2 => $f::<u32>($($args),*),
            3 => $f::<u64>($($args),*),
            _ => $f::<usize>($($args),*),
        }
    };
}

/// Runs the parser selected by `cfg` to its final result. Not wrapped in any panic guard: callers
/// decide (work::sut / work::sut_caught).
pub fn run(cfg: PCfg, ctor: Ctor, src: Src, on_item: &mut dyn FnMut(&str)) -> Outcome {
    match cfg.pk {
        PK::Cnf => by_dimacs_type!(run_cnf, cfg.lt, cfg.flag, ctor, src, on_item),
        PK::Wcnf => by_dimacs_type!(run_wcnf, cfg.lt, cfg.flag, ctor, src, on_item),
        PK::Gcnf => by_dimacs_type!(run_gcnf, cfg.lt, cfg.flag, ctor, src, on_item),
        PK::Log => by_dimacs_type!(run_log, cfg.lt, cfg.flag, ctor, src, on_item),
        PK::Aag => by_aiger_type!(run_aag, cfg.lt, cfg.sections, cfg.skip, ctor, src, on_item),
        PK::Aig => by_aiger_type!(run_aig, cfg.lt, cfg.sections, cfg.skip, ctor, src, on_item),
        PK::Btor2 => run_btor2(ctor, src, on_item),
    }
}

#[derive(Clone, Debug, PartialEq, Eq)]
pub struct Trace {
    pub items: Vec<String>,
    pub outcome: Outcome,
}

pub fn run_collect(cfg: PCfg, ctor: Ctor, src: Src) -> Trace {
    let mut items = vec![];
    let outcome = run(cfg, ctor, src, &mut |s| items.push(s.to_string()));
    Trace { items, outcome }
}

pub fn random_cfg(rng: &mut crate::prng::Rng, pk: PK) -> PCfg {
    PCfg {
        pk,
        lt: rng.below(pk.n_lit_types() as u64) as u8,
        flag: (pk.is_dimacs() || pk == PK::Log) && rng.chance(1, 3),
        sections: pk.is_aiger() && rng.chance(1, 2),
        skip: 0,
    }
}

/// like `random_cfg`, but AIGER section runs sometimes skip (parts of) sections
/// What a section-API run that skips per `skip` must hand out, given the items of the full run:
/// mode 1 keeps only the first entry of a section, mode 2 none; header, symbols and comment are kept.
pub fn filter_skipped(items: &[String], skip: u32) -> Vec<String> {
    const SECTIONS: [&str; 9] = ["IN ", "LATCH ", "OUT ", "BAD ", "CONSTR ", "JSIZE ", "JLIT ", "FAIR ", "AND "];
    let mut seen = [0u32; 9];
    let mut out = vec![];
    for it in items {
        match SECTIONS.iter().position(|p| it.starts_with(p)) {
            None => out.push(it.clone()),
            Some(i) => {
                let mode = (skip >> (2 * i)) & 3;
                seen[i] += 1;
                if mode == 0 || (mode == 1 && seen[i] == 1) {
                    out.push(it.clone());
                }
            }
        }
    }
    out
}

/// a random non-zero skip pattern
pub fn random_skip(rng: &mut crate::prng::Rng) -> u32 {
    let mut skip = 0;
    while skip == 0 {
        for i in 0..9 {
            if rng.chance(1, 3) {
                skip |= (1 + rng.below(2) as u32) << (2 * i);
            }
        }
    }
    skip
}

pub const CTOR_CHUNKS: [usize; 12] = [1, 2, 3, 5, 7, 8, 9, 16, 17, 64, 1024, 16384];

/// every public way of putting a parser on top of a byte source, incl. pre-used BufReaders (small and
/// larger than the reader's default chunk) and readers that were advanced before the parser was built
pub fn random_ctor(rng: &mut crate::prng::Rng) -> Ctor {
    match rng.below(10) {
        0 => Ctor::FromRead,
        1 => Ctor::FromBoxed,
        2 => Ctor::FromBufReader(if rng.chance(1, 5) { rng.usize(2) } else { 1 + rng.usize(100) }),
        3 => Ctor::FromBufReader(*rng.pick(&[4096usize, 16384, 16385, 20000, 40000, 70000])),
        4 | 5 => Ctor::AfterPreamble(1 + rng.usize(60), *rng.pick(&CTOR_CHUNKS)),
        6 | 7 => Ctor::Prefetched(*rng.pick(&CTOR_CHUNKS)),
        _ => Ctor::Chunk(*rng.pick(&CTOR_CHUNKS)),
    }
}

pub fn random_cfg_skip(rng: &mut crate::prng::Rng, pk: PK) -> PCfg {
    let mut c = random_cfg(rng, pk);
    if c.sections && rng.chance(1, 2) {
        for i in 0..9 {
            if rng.chance(1, 3) {
                c.skip |= (1 + rng.below(2) as u32) << (2 * i);
            }
        }
    }
    c
}
