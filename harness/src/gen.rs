//! Document builders: abstract values of every format, rendered to bytes together with a token map
//! (offset, length, line, column, role of every token), the end offset of the line completing every
//! item, line cuts for line-by-line delivery, and the canonical items a correct parser must return.

use crate::drive::PK;
use crate::json::hex;
use crate::prng::Rng;

#[derive(Clone, Debug, PartialEq, Eq)]
pub enum Role {
    /// a decimal number; `max` = largest value the parser may accept here (as decimal text), if bounded
    Num,
    Keyword,
    /// a mandatory single-space separator (AIGER / BTOR2)
    Sep,
    Name,
    Comment,
    Binary,
}

#[derive(Clone, Debug)]
pub struct Tok {
    pub off: usize,
    pub len: usize,
    /// 1-based line / column of the first byte
    pub line: usize,
    pub col: usize,
    pub role: Role,
    /// what the token is (for corruption selection), e.g. "lit", "var_count", "weight", "header:M"
    pub what: &'static str,
    /// for Num tokens: an upper limit known to the generator (decimal text), None if unbounded here
    pub limit: Option<String>,
}

#[derive(Clone, Debug, Default)]
pub struct Doc {
    pub bytes: Vec<u8>,
    pub toks: Vec<Tok>,
    /// canonical items a correct parser returns, in order
    pub items: Vec<String>,
    /// for item i: offset just past the last byte of the line that completes it
    pub item_ends: Vec<usize>,
    /// offsets at which a line-by-line source may cut (after every line; per gate in binary sections)
    pub cuts: Vec<usize>,
    /// layout features used (C07 coverage), as small indices into FEATURES
    pub features: u64,
}

pub struct B {
    pub d: Doc,
    line: usize,
    line_start: usize,
    /// when true, 0x0a bytes do not start a new line (binary AIGER gate section)
    pub raw_mode: bool,
}

impl B {
    pub fn new() -> B {
        B {
            d: Doc::default(),
            line: 1,
            line_start: 0,
            raw_mode: false,
        }
    }
    pub fn pos(&self) -> usize {
        self.d.bytes.len()
    }
    pub fn raw(&mut self, b: &[u8]) {
        for &c in b {
            self.d.bytes.push(c);
            if c == b'\n' && !self.raw_mode {
                self.line += 1;
                self.line_start = self.d.bytes.len();
                self.d.cuts.push(self.d.bytes.len());
            }
        }
    }
    pub fn tok(&mut self, text: &[u8], role: Role, what: &'static str, limit: Option<String>) -> usize {
        let t = Tok {
            off: self.pos(),
            len: text.len(),
            line: self.line,
            col: self.pos() - self.line_start + 1,
            role,
            what,
            limit,
        };
        self.d.toks.push(t);
        self.raw(text);
        self.d.toks.len() - 1
    }
    pub fn num(&mut self, v: impl ToString, what: &'static str, limit: Option<String>) -> usize {
        let s = v.to_string();
        self.tok(s.as_bytes(), Role::Num, what, limit)
    }
    pub fn sep(&mut self) {
        self.tok(b" ", Role::Sep, "sep", None);
    }
    pub fn nl(&mut self) {
        self.raw(b"\n");
    }
    /// mark that the item rendered as `item` is complete at the end of the current line
    /// (call right after the terminating newline was emitted, or at end of data)
    pub fn item(&mut self, item: String) {
        self.d.items.push(item);
        self.d.item_ends.push(self.pos());
    }
    pub fn cut_here(&mut self) {
        let p = self.pos();
        if self.d.cuts.last() != Some(&p) {
            self.d.cuts.push(p);
        }
    }
    pub fn finish(mut self) -> Doc {
        let n = self.d.bytes.len();
        if self.d.cuts.last() != Some(&n) && n > 0 {
            self.d.cuts.push(n);
        }
        self.d
    }
}

pub fn max_dimacs(lt: u8) -> i64 {
    match lt {
        0 => i8::MAX as i64,
        1 => i16::MAX as i64,
        2 => i32::MAX as i64,
        _ => i64::MAX,
    }
}

pub fn max_code(lt: u8) -> u64 {
    match lt {
        0 => u8::MAX as u64,
        1 => u16::MAX as u64,
        2 => u32::MAX as u64,
        _ => u64::MAX,
    }
}

// =============================================================================== DIMACS family

#[derive(Clone, Debug)]
pub struct DimacsDoc {
    pub kind: PK,
    /// var_count, clause_count, top_weight / group_count (third unused for cnf)
    pub header: Option<[u64; 3]>,
    /// (weight or group, literals)
    pub clauses: Vec<(u64, Vec<i64>)>,
}

pub fn boundary_lit(rng: &mut Rng, max: i64) -> i64 {
    let m = match rng.below(10) {
        0 => max,
        1 => max - 1,
        2 => 1,
        3 => (max / 2).max(1),
        4 => {
            // 10^k +- 1 within range
            let k = rng.below(19) as u32;
            let p = 10i64.checked_pow(k).unwrap_or(i64::MAX);
            (p + rng.below(3) as i64 - 1).clamp(1, max)
        }
        5 => {
            // 7/8/9/15/16/17-digit numbers (SWAR block boundaries)
            let d = *rng.pick(&[7u32, 8, 9, 15, 16, 17]);
            let lo = 10i64.pow(d - 1);
            if lo >= max {
                1 + rng.below(max as u64) as i64
            } else {
                let hi = lo.saturating_mul(10).min(max);
                lo + rng.below((hi - lo) as u64) as i64
            }
        }
        6 => (1i64 << rng.below(63)).clamp(1, max),
        _ => 1 + rng.below(max.min(60) as u64) as i64,
    };
    let m = m.clamp(1, max);
    if rng.chance(1, 2) {
        -m
    } else {
        m
    }
}

pub fn gen_dimacs(rng: &mut Rng, kind: PK, lt: u8, consistent_header: bool, size: usize) -> DimacsDoc {
    let max = max_dimacs(lt);
    let nclauses = match rng.below(6) {
        0 => 0,
        1 => 1,
        _ => rng.usize(size + 1),
    };
    let small_vars = rng.chance(1, 2);
    let var_range = if small_vars { max.min(1 + rng.below(40) as i64) } else { max };
    let group_range: u64 = if rng.chance(1, 4) { u64::MAX } else { 1 + rng.below(30) };
    let mut clauses = vec![];
    for _ in 0..nclauses {
        let len = match rng.below(8) {
            0 => 0,
            1 => 1,
            7 => rng.usize(200.min(size * 4) + 1),
            _ => rng.usize(8),
        };
        let lits: Vec<i64> = (0..len).map(|_| boundary_lit(rng, var_range)).collect();
        let extra = match kind {
            PK::Wcnf => match rng.below(6) {
                0 => 0,
                1 => u64::MAX,
                2 => 1,
                3 => rng.next(),
                _ => rng.below(1000),
            },
            PK::Gcnf => match rng.below(5) {
                0 => 0,
                1 => group_range.min(usize::MAX as u64),
                _ => rng.range(0, group_range.min(1000)),
            },
            _ => 0,
        };
        clauses.push((extra, lits));
    }
    if size >= 2000 && !clauses.is_empty() && rng.chance(1, 3) {
        // a clause with more literals than any reservation cap, longer than the reader's chunk
        let k = rng.usize(clauses.len());
        clauses[k].1 = (0..long_count(rng)).map(|_| boundary_lit(rng, var_range)).collect();
    }
    let max_var = clauses
        .iter()
        .flat_map(|c| c.1.iter())
        .map(|l| l.unsigned_abs())
        .max()
        .unwrap_or(0);
    let max_group = clauses.iter().map(|c| c.0).max().unwrap_or(0);
    let header = if rng.chance(1, 5) {
        None
    } else if consistent_header {
        let v = match rng.below(4) {
            0 => 0,
            1 => max_var,
            2 => max as u64,
            _ => max_var + rng.below((max as u64 - max_var).min(10) + 1),
        };
        let c = if rng.chance(1, 4) { 0 } else { nclauses as u64 };
        let third = match kind {
            PK::Wcnf => match rng.below(4) {
                0 => 0,
                1 => u64::MAX,
                _ => rng.next() >> rng.below(64),
            },
            PK::Gcnf => match rng.below(4) {
                0 => 0,
                1 => max_group,
                _ => max_group.saturating_add(rng.below(5)),
            },
            _ => 0,
        };
        Some([v, c, third])
    } else {
        // arbitrary (only for ignore_header runs); var_count must still respect the hard limit
        Some([
            rng.below(max as u64 + 1).min(rng.below(50)),
            rng.below(50),
            rng.below(50),
        ])
    };
    DimacsDoc {
        kind,
        header,
        clauses,
    }
}

impl DimacsDoc {
    pub fn header_item(&self) -> Option<String> {
        self.header.map(|h| match self.kind {
            PK::Cnf => format!("H {} {}", h[0], h[1]),
            _ => format!("H {} {} {}", h[0], h[1], h[2]),
        })
    }
    pub fn clause_item(&self, c: &(u64, Vec<i64>)) -> String {
        let lits = c.1.iter().map(|l| l.to_string()).collect::<Vec<_>>().join(" ");
        match self.kind {
            PK::Cnf => format!("C {}", lits),
            PK::Wcnf => format!("W {}|{}", c.0, lits),
            _ => format!("G {}|{}", c.0, lits),
        }
    }
    pub fn items(&self) -> Vec<String> {
        let mut v = vec![];
        if let Some(h) = self.header_item() {
            v.push(h);
        }
        for c in &self.clauses {
            v.push(self.clause_item(c));
        }
        v
    }
}

pub const FEATURES: [&str; 23] = [
    "last_line_of_any_kind_without_newline",
    "comment_with_non_ascii_bytes",
    "multi_blank_between_tokens",
    "tab_separator",
    "trailing_blanks",
    "leading_blanks",
    "blank_line_before_header",
    "blank_line_between_clauses",
    "blank_line_inside_clause",
    "crlf_blank_line_inside_clause",
    "comment_before_header",
    "comment_between_clauses",
    "comment_inside_clause",
    "clause_split_over_lines",
    "crlf",
    "no_final_newline",
    "leading_zeros",
    "minus_zero_terminator",
    "comment_with_cr_or_digits",
    "split_after_weight_or_group",
    "empty_comment",
    "blank_only_line_with_spaces",
    "final_blanks_no_newline",
];

pub struct Layout<'a> {
    pub rng: Option<&'a mut Rng>,
    /// probability weight (0..=100) of using a free-layout feature at each opportunity
    pub density: u64,
}

impl<'a> Layout<'a> {
    pub fn plain() -> Layout<'static> {
        Layout {
            rng: None,
            density: 0,
        }
    }
    fn on(&mut self) -> bool {
        match &mut self.rng {
            Some(r) => r.below(100) < self.density,
            None => false,
        }
    }
    fn n(&mut self, max: usize) -> usize {
        match &mut self.rng {
            Some(r) => r.usize(max + 1),
            None => 0,
        }
    }
    /// free text of a comment / ignored line: any byte but LF, with weight on bytes >= 0x80 (UTF-8,
    /// Latin-1) and on lengths around the 8-byte word size
    fn text(&mut self) -> Vec<u8> {
        match &mut self.rng {
            Some(r) => {
                let n = match r.below(6) {
                    0 => r.usize(4),
                    1 => 6 + r.usize(5),
                    2 => 14 + r.usize(5),
                    3 => 60 + r.usize(300),
                    _ => r.usize(30),
                };
                (0..n)
                    .map(|_| {
                        let c = match r.below(8) {
                            0 | 1 => 0x80 + r.below(0x80) as u8,
                            2 => *r.pick(&[0x8au8, 0x0b, 0x0c, 0x0d, 0x09, 0x00, 0xff, 0x7f, 0x85]),
                            3 => r.below(256) as u8,
                            4 => *r.pick(b" 0123456789-"),
                            _ => b'a' + r.below(26) as u8,
                        };
                        if c == b'\n' {
                            b'_'
                        } else {
                            c
                        }
                    })
                    .collect()
            }
            None => vec![],
        }
    }
    fn pick(&mut self, xs: &'static [&'static [u8]]) -> &'static [u8] {
        match &mut self.rng {
            Some(r) => xs[r.usize(xs.len())],
            None => xs[0],
        }
    }
}

fn feat(b: &mut B, name: &str) {
    let i = FEATURES.iter().position(|f| *f == name).unwrap();
    b.d.features |= 1 << i;
}

/// blanks between two tokens on the same line (at least one)
fn blanks(b: &mut B, l: &mut Layout) {
    if l.on() {
        let n = 1 + l.n(3);
        let mut s = vec![];
        let mut tab = false;
        for _ in 0..n {
            let c = l.pick(&[b" ", b"\t"]);
            tab |= c == b"\t";
            s.extend_from_slice(c);
        }
        if n > 1 {
            feat(b, "multi_blank_between_tokens");
        }
        if tab {
            feat(b, "tab_separator");
        }
        b.raw(&s);
    } else {
        b.raw(b" ");
    }
}

fn eol(b: &mut B, l: &mut Layout) {
    if l.on() {
        feat(b, "trailing_blanks");
        let n = 1 + l.n(2);
        for _ in 0..n {
            let c = l.pick(&[b" ", b"\t"]);
            b.raw(c);
        }
    }
    if l.on() {
        feat(b, "crlf");
        b.raw(b"\r\n");
    } else {
        b.raw(b"\n");
    }
}

fn comment_line(b: &mut B, l: &mut Layout) {
    // 'c' must be the first byte at the current position (leading blanks were consumed before)
    let texts: &[&[u8]] = &[
        b"c",
        b"c a comment",
        b"c 1 2 3 0",
        b"c\ttabbed",
        b"c with \r carriage return inside",
        b"c p cnf 1 1",
        b"c -0 0",
        b"cfoo",
    ];
    let k = l.n(texts.len() - 1);
    if l.on() {
        // free text (any byte but LF) behind the 'c'
        let mut t = vec![b'c'];
        t.extend_from_slice(&l.text());
        if t.iter().any(|&c| c >= 0x80) {
            feat(b, "comment_with_non_ascii_bytes");
        }
        b.tok(&t, Role::Comment, "comment", None);
    } else {
        if k == 0 {
            feat(b, "empty_comment");
        }
        if k == 2 || k == 4 || k == 6 {
            feat(b, "comment_with_cr_or_digits");
        }
        let t = texts[k];
        b.tok(t, Role::Comment, "comment", None);
    }
    if l.on() {
        feat(b, "crlf");
        b.raw(b"\r\n");
    } else {
        b.raw(b"\n");
    }
}

/// things that may stand between two statements / in front of the header: blank lines, comments,
/// leading blanks of the next line
fn filler(b: &mut B, l: &mut Layout, blank_feat: &str, comment_feat: &str) {
    let n = if l.on() { 1 + l.n(2) } else { 0 };
    for _ in 0..n {
        if l.on() {
            feat(b, "leading_blanks");
            let c = l.pick(&[b" ", b"\t", b"  "]);
            b.raw(c);
        }
        if l.on() {
            feat(b, comment_feat);
            comment_line(b, l);
        } else {
            feat(b, blank_feat);
            if l.on() {
                feat(b, "crlf");
                b.raw(b"\r\n");
            } else {
                b.raw(b"\n");
            }
        }
    }
    if l.on() {
        feat(b, "leading_blanks");
        let c = l.pick(&[b" ", b"\t", b" \t "]);
        b.raw(c);
    }
}

fn numeral(l: &mut Layout, v: i128, feat_out: &mut bool) -> String {
    let mut s = String::new();
    if v < 0 {
        s.push('-');
    }
    if l.on() {
        *feat_out = true;
        let z = 1 + l.n(29);
        for _ in 0..z {
            s.push('0');
        }
    }
    s.push_str(&v.unsigned_abs().to_string());
    s
}

pub fn render_dimacs(doc: &DimacsDoc, lt: u8, l: &mut Layout) -> Doc {
    let mut b = B::new();
    let maxd = max_dimacs(lt);
    filler(&mut b, l, "blank_line_before_header", "comment_before_header");
    let lit_limit;
    if let Some(h) = doc.header {
        b.tok(b"p", Role::Keyword, "p", None);
        blanks(&mut b, l);
        let kw: &[u8] = match doc.kind {
            PK::Cnf => b"cnf",
            PK::Wcnf => b"wcnf",
            _ => b"gcnf",
        };
        b.tok(kw, Role::Keyword, "format", None);
        blanks(&mut b, l);
        let mut z = false;
        let s = numeral(l, h[0] as i128, &mut z);
        b.tok(s.as_bytes(), Role::Num, "var_count", Some(maxd.to_string()));
        blanks(&mut b, l);
        let s = numeral(l, h[1] as i128, &mut z);
        b.tok(s.as_bytes(), Role::Num, "clause_count", Some(usize::MAX.to_string()));
        if doc.kind != PK::Cnf {
            blanks(&mut b, l);
            let s = numeral(l, h[2] as i128, &mut z);
            b.tok(
                s.as_bytes(),
                Role::Num,
                if doc.kind == PK::Wcnf { "top_weight" } else { "group_count" },
                Some(u64::MAX.to_string()),
            );
        }
        if z {
            feat(&mut b, "leading_zeros");
        }
        eol(&mut b, l);
        b.item(doc.header_item().unwrap());
        lit_limit = if h[0] != 0 { h[0] as i64 } else { maxd };
    } else {
        lit_limit = maxd;
    }
    let group_limit = match doc.header {
        Some(h) if doc.kind == PK::Gcnf && h[2] != 0 => h[2],
        _ => usize::MAX as u64,
    };
    let n = doc.clauses.len();
    for (ci, c) in doc.clauses.iter().enumerate() {
        filler(&mut b, l, "blank_line_between_clauses", "comment_between_clauses");
        let mut z = false;
        // continuation: a line break inside the clause, optionally followed by comments / blank lines
        let mut cont = |b: &mut B, l: &mut Layout, after_prefix: bool| {
            feat(b, if after_prefix { "split_after_weight_or_group" } else { "clause_split_over_lines" });
            // tokens eat trailing blanks, so blanks may precede the line break
            if l.on() {
                feat(b, "trailing_blanks");
                b.raw(b" ");
            }
            if l.on() {
                feat(b, "crlf");
                b.raw(b"\r\n");
            } else {
                b.raw(b"\n");
            }
            let k = if l.on() { 1 + l.n(2) } else { 0 };
            for _ in 0..k {
                if l.on() {
                    feat(b, "leading_blanks");
                    b.raw(b" ");
                }
                if l.on() {
                    feat(b, "comment_inside_clause");
                    comment_line(b, l);
                } else {
                    feat(b, "blank_line_inside_clause");
                    if l.on() {
                        feat(b, "crlf_blank_line_inside_clause");
                        b.raw(b"\r\n");
                    } else {
                        b.raw(b"\n");
                    }
                }
            }
            if l.on() {
                feat(b, "leading_blanks");
                b.raw(b"\t");
            }
        };
        match doc.kind {
            PK::Wcnf => {
                let s = numeral(l, c.0 as i128, &mut z);
                b.tok(s.as_bytes(), Role::Num, "weight", Some(u64::MAX.to_string()));
                if l.on() && l.on() {
                    cont(&mut b, l, true);
                } else {
                    blanks(&mut b, l);
                }
            }
            PK::Gcnf => {
                b.raw(b"{");
                let s = numeral(l, c.0 as i128, &mut z);
                b.tok(s.as_bytes(), Role::Num, "group", Some(group_limit.to_string()));
                b.raw(b"}");
                if l.on() && l.on() {
                    cont(&mut b, l, true);
                } else {
                    blanks(&mut b, l);
                }
            }
            _ => {}
        }
        for &lit in &c.1 {
            let s = numeral(l, lit as i128, &mut z);
            b.tok(s.as_bytes(), Role::Num, "lit", Some(lit_limit.to_string()));
            if l.on() && l.on() {
                cont(&mut b, l, false);
            } else {
                blanks(&mut b, l);
            }
        }
        // terminator
        if l.on() {
            feat(&mut b, "minus_zero_terminator");
            b.tok(b"-0", Role::Num, "terminator", None);
        } else if l.on() {
            z = true;
            b.tok(b"000", Role::Num, "terminator", None);
        } else {
            b.tok(b"0", Role::Num, "terminator", None);
        }
        if z {
            feat(&mut b, "leading_zeros");
        }
        let last = ci + 1 == n;
        if last && l.on() {
            // missing final newline, optionally with trailing blanks
            feat(&mut b, "no_final_newline");
            if l.on() {
                feat(&mut b, "final_blanks_no_newline");
                b.raw(b" \t");
            }
        } else {
            eol(&mut b, l);
        }
        b.item(doc.clause_item(c));
    }
    // trailing filler after the last clause (only if the data ended with a newline)
    if b.d.bytes.last().map_or(true, |&c| c == b'\n') {
        let k = if l.on() { 1 + l.n(2) } else { 0 };
        for _ in 0..k {
            if l.on() {
                feat(&mut b, "blank_only_line_with_spaces");
                b.raw(b"  ");
            }
            if l.on() {
                feat(&mut b, "comment_between_clauses");
                comment_line(&mut b, l);
            } else {
                feat(&mut b, "blank_line_between_clauses");
                b.raw(b"\n");
            }
        }
    }
    // whatever the last line is - header, clause, comment, blank - it may lack its final newline
    if l.on() && b.d.bytes.ends_with(b"\n") && !b.d.bytes.ends_with(b"\r\n") && b.d.bytes.len() > 1 {
        feat(&mut b, "no_final_newline");
        feat(&mut b, "last_line_of_any_kind_without_newline");
        b.d.bytes.pop();
        // keep the bookkeeping inside the shortened data: cuts and item ends are offsets into it
        let n = b.d.bytes.len();
        for c in b.d.cuts.iter_mut() {
            *c = (*c).min(n);
        }
        b.d.cuts.dedup();
        for e in b.d.item_ends.iter_mut() {
            *e = (*e).min(n);
        }
    }
    b.finish()
}

// =============================================================================== solver log

#[derive(Clone, Debug)]
pub struct LogDoc {
    /// None: no solution line; Some(None): "s UNKNOWN"
    pub status: Option<Option<bool>>,
    /// None: no value lines at all
    pub values: Option<Vec<i64>>,
}

pub fn gen_log(rng: &mut Rng, lt: u8, size: usize) -> LogDoc {
    let max = max_dimacs(lt);
    let status = match rng.below(5) {
        0 => None,
        1 => Some(None),
        2 => Some(Some(false)),
        _ => Some(Some(true)),
    };
    let values = if rng.chance(1, 4) {
        None
    } else {
        let n = match rng.below(4) {
            0 => 0,
            1 => 1,
            _ => rng.usize(size * 3 + 1),
        };
        Some((0..n).map(|_| boundary_lit(rng, max)).collect())
    };
    LogDoc { status, values }
}

impl LogDoc {
    pub fn item(&self) -> String {
        format!(
            "LOG sat={} a={}",
            match self.status {
                None | Some(None) => "unknown",
                Some(Some(true)) => "true",
                Some(Some(false)) => "false",
            },
            self.values
                .as_ref()
                .map(|v| v.iter().map(|l| l.to_string()).collect::<Vec<_>>().join(" "))
                .unwrap_or_default()
        )
    }
}

pub const LOG_FEATURES: [&str; 14] = [
    "near_miss_of_a_line_marker",
    "lines_with_non_ascii_bytes",
    "comment_lines",
    "unknown_lines",
    "values_split_over_lines",
    "empty_value_line",
    "status_before_values",
    "status_between_values",
    "status_after_values",
    "crlf",
    "no_final_newline",
    "multi_blank_between_values",
    "leading_zeros",
    "minus_zero_terminator",
];

fn lfeat(b: &mut B, name: &str) {
    let i = LOG_FEATURES.iter().position(|f| *f == name).unwrap();
    b.d.features |= 1 << i;
}

pub fn render_log(doc: &LogDoc, ignore_unknown: bool, l: &mut Layout) -> Doc {
    let mut b = B::new();
    // decide where the status line goes: 0 before, 1 between value lines, 2 after
    let status_pos = l.n(2);
    let noise = |b: &mut B, l: &mut Layout, values_open: bool, status_open: bool| {
        let k = if l.on() { 1 + l.n(2) } else { 0 };
        for _ in 0..k {
            if ignore_unknown && l.on() {
                lfeat(b, "unknown_lines");
                // must not start with "c " (comment), nor with "v "/"s " while those are expected
                let cands: &[&[u8]] = &[
                    b"",
                    b"c",
                    b"solver v1.0 running",
                    b" v 1 2 0",
                    b"vv 1 2",
                    b"\tindented",
                    b"s",
                    b"o 17",
                ];
                let mut t = l.pick(cands);
                if (t.starts_with(b"v ") && values_open) || (t.starts_with(b"s ") && status_open) {
                    t = b"x";
                }
                if l.on() {
                    // free text (any byte but LF) that cannot be taken for a "c ", "v " or "s " line
                    let mut x = vec![*l.pick(&[b"x", b"\xc3", b"#", b"V"]).first().unwrap()];
                    if l.on() {
                        // near misses of the recognised line starts "v ", "s " and "c ": the marker letter
                        // followed by anything but a space
                        x = l.pick(&[b"v\t", b"s\t", b"c\t", b"vv", b"v-", b"v1", b"v0", b"sS", b"s\r", b"v\r", b"v\x0b", b"cc"]).to_vec();
                        lfeat(b, "near_miss_of_a_line_marker");
                    }
                    x.extend_from_slice(&l.text());
                    lfeat(b, "lines_with_non_ascii_bytes");
                    b.raw(&x);
                } else {
                    b.raw(t);
                }
                b.raw(b"\n");
            } else {
                lfeat(b, "comment_lines");
                let cands: &[&[u8]] = &[b"c ", b"c hello", b"c v 1 2 0", b"c s SATISFIABLE", b"c  \t x\r"];
                let t = l.pick(cands);
                if l.on() {
                    let mut x = b"c ".to_vec();
                    x.extend_from_slice(&l.text());
                    lfeat(b, "lines_with_non_ascii_bytes");
                    b.tok(&x, Role::Comment, "comment", None);
                } else {
                    b.tok(t, Role::Comment, "comment", None);
                }
                if l.on() {
                    lfeat(b, "crlf");
                    b.raw(b"\r\n");
                } else {
                    b.raw(b"\n");
                }
            }
        }
    };
    let status_line = |b: &mut B, l: &mut Layout, last: bool| {
        if let Some(st) = doc.status {
            b.tok(b"s", Role::Keyword, "s", None);
            b.raw(b" ");
            let kw: &[u8] = match st {
                Some(true) => b"SATISFIABLE",
                Some(false) => b"UNSATISFIABLE",
                None => b"UNKNOWN",
            };
            b.tok(kw, Role::Keyword, "status", None);
            if last && l.on() {
                lfeat(b, "no_final_newline");
            } else if l.on() {
                lfeat(b, "crlf");
                b.raw(b"\r\n");
            } else {
                b.raw(b"\n");
            }
        }
    };
    let mut status_done = doc.status.is_none();
    let values_exist = doc.values.is_some();
    noise(&mut b, l, values_exist, !status_done);
    if !status_done && (status_pos == 0 || !values_exist) {
        if values_exist {
            lfeat(&mut b, "status_before_values");
        }
        status_line(&mut b, l, !values_exist && false);
        status_done = true;
        noise(&mut b, l, values_exist, false);
    }
    if let Some(vals) = &doc.values {
        // split the literals (plus terminator) over value lines
        let mut i = 0;
        let total = vals.len() + 1;
        let mut first_line = true;
        let mut empties = 0;
        while i < total {
            if !first_line {
                lfeat(&mut b, "values_split_over_lines");
                noise(&mut b, l, true, !status_done);
                if !status_done && status_pos == 1 {
                    lfeat(&mut b, "status_between_values");
                    status_line(&mut b, l, false);
                    status_done = true;
                    noise(&mut b, l, true, false);
                }
            }
            first_line = false;
            b.tok(b"v", Role::Keyword, "v", None);
            b.raw(b" ");
            if l.on() {
                lfeat(&mut b, "multi_blank_between_values");
                b.raw(b" \t");
            }
            let on_line = if l.on() {
                if l.on() && empties < 3 {
                    empties += 1;
                    lfeat(&mut b, "empty_value_line");
                    0
                } else {
                    1 + l.n(3)
                }
            } else {
                total - i
            };
            let on_line = on_line.min(total - i);
            for k in 0..on_line {
                let idx = i + k;
                let mut z = false;
                if idx < vals.len() {
                    let s = numeral(l, vals[idx] as i128, &mut z);
                    b.tok(s.as_bytes(), Role::Num, "value", Some(max_dimacs(0).to_string()));
                } else if l.on() {
                    lfeat(&mut b, "minus_zero_terminator");
                    b.tok(b"-0", Role::Num, "terminator", None);
                } else {
                    b.tok(b"0", Role::Num, "terminator", None);
                }
                if z {
                    lfeat(&mut b, "leading_zeros");
                }
                if k + 1 < on_line {
                    if l.on() {
                        lfeat(&mut b, "multi_blank_between_values");
                        b.raw(b"  ");
                    } else {
                        b.raw(b" ");
                    }
                } else if l.on() {
                    b.raw(b" ");
                }
            }
            i += on_line;
            let last = i >= total && status_done;
            if last && l.on() {
                lfeat(&mut b, "no_final_newline");
            } else if l.on() {
                lfeat(&mut b, "crlf");
                b.raw(b"\r\n");
            } else {
                b.raw(b"\n");
            }
        }
    }
    if !status_done {
        if values_exist {
            lfeat(&mut b, "status_after_values");
        }
        if b.d.bytes.last().map_or(true, |&c| c == b'\n') {
            noise(&mut b, l, false, true);
            status_line(&mut b, l, true);
        }
    }
    if b.d.bytes.last().map_or(true, |&c| c == b'\n') {
        noise(&mut b, l, false, false);
    }
    b.item(doc.item());
    b.finish()
}

// =============================================================================== AIGER

#[derive(Clone, Copy, Debug, PartialEq, Eq)]
pub enum Init {
    /// reset to 0, third field omitted
    ZeroOmitted,
    /// reset to 0 written explicitly as " 0"
    ZeroExplicit,
    One,
    /// uninitialised: the latch's own literal
    Own,
}

#[derive(Clone, Debug)]
pub struct AigerDoc {
    pub binary: bool,
    pub m: u64,
    /// ascii: input literals; binary: empty (the inputs are the literals 2,4,..,2I, implicit in the file)
    pub inputs: Vec<u64>,
    /// number of inputs (binary documents may declare huge counts without any per-input data)
    pub n_inputs: u64,
    /// (state literal, next-state literal, init); binary: state literals are implicit
    pub latches: Vec<(u64, u64, Init)>,
    pub outputs: Vec<u64>,
    pub bad: Vec<u64>,
    pub constr: Vec<u64>,
    pub justice: Vec<Vec<u64>>,
    pub fair: Vec<u64>,
    /// (output, input0, input1); binary: output implicit, input0 >= input1, input0 < output
    pub ands: Vec<(u64, u64, u64)>,
    /// (kind letter, index, name)
    pub symbols: Vec<(u8, u64, Vec<u8>)>,
    pub comment: Option<Vec<u8>>,
    /// how many header fields are written (5..=9); at least up to the last non-zero count
    pub header_fields: usize,
}

fn utf8_name(rng: &mut Rng, allow_newline: bool) -> Vec<u8> {
    let n = match rng.below(5) {
        0 => 0,
        1 => 1,
        _ => rng.usize(24),
    };
    let mut s = String::new();
    for _ in 0..n {
        let c = match rng.below(10) {
            0 => ' ',
            1 => 'é',
            2 => '→',
            3 => '😀',
            4 => '\r',
            5 => '\t',
            6 if allow_newline => '\n',
            7 => *rng.pick(&['0', '9', 'c', 'i', ';']),
            _ => (b'a' + rng.below(26) as u8) as char,
        };
        s.push(c);
    }
    s.into_bytes()
}

pub fn gen_aiger(rng: &mut Rng, binary: bool, lt: u8, size: usize) -> AigerDoc {
    gen_aiger_ext(rng, binary, lt, size, None)
}

pub const AIGER_LONG_SECTIONS: [&str; 10] = [
    "inputs", "latches", "gates", "outputs", "bad", "constraints", "justice_properties", "one_justice_property",
    "fairness", "symbols",
];

/// a count around the parsers' reservation cap (4096) and the reader's default chunk
pub fn long_count(rng: &mut Rng) -> u64 {
    *rng.pick(&[4095u64, 4096, 4097, 4100, 5000, 8193, 12000])
}

/// `long`: (index into AIGER_LONG_SECTIONS, entry count) - that section gets that many entries
pub fn gen_aiger_ext(rng: &mut Rng, binary: bool, lt: u8, size: usize, long: Option<(usize, u64)>) -> AigerDoc {
    let max_m = (max_code(lt) - 1) / 2;
    let want = |k: usize| -> Option<u64> {
        match long {
            Some((s, n)) if s == k => Some(n),
            _ => None,
        }
    };
    let cnt = |rng: &mut Rng, cap: u64| -> u64 {
        let v = match rng.below(6) {
            0 => 0,
            1 => 1,
            2 => 2,
            _ => rng.below(size as u64 + 1),
        };
        v.min(cap)
    };
    let mut budget = max_m;
    let mut i = cnt(rng, budget);
    if binary && lt >= 3 && rng.chance(1, 4) && want(0).is_none() {
        // huge input count: makes delta codes of every length up to 10 bytes without per-input data
        i = (1u64 << (6 + rng.below(57))).min(max_m - 8) + rng.below(3);
    }
    if let Some(n) = want(0) {
        i = n.min(budget);
    }
    budget -= i;
    let mut l = cnt(rng, budget);
    if let Some(n) = want(1) {
        l = n.min(budget);
    }
    budget -= l;
    let mut a = cnt(rng, budget);
    if let Some(n) = want(2) {
        a = n.min(budget);
    }
    budget -= a;
    let slack = match rng.below(4) {
        0 => 0,
        1 => budget,
        _ => rng.below(budget.min(5) + 1),
    };
    let m = i + l + a + slack;
    let mut o = cnt(rng, u64::MAX);
    let (mut bcnt, mut ccnt, mut jcnt, mut fcnt) = if rng.chance(1, 2) {
        (0, 0, 0, 0)
    } else {
        (
            cnt(rng, u64::MAX),
            cnt(rng, u64::MAX),
            cnt(rng, u64::MAX).min(6),
            cnt(rng, u64::MAX),
        )
    };
    o = want(3).unwrap_or(o);
    bcnt = want(4).unwrap_or(bcnt);
    ccnt = want(5).unwrap_or(ccnt);
    jcnt = want(6).unwrap_or(jcnt);
    fcnt = want(8).unwrap_or(fcnt);
    if want(7).is_some() && jcnt == 0 {
        jcnt = 1 + rng.below(3);
    }
    // variable assignment
    let vars: Vec<u64> = if binary {
        // position = variable: inputs 1..=i (not materialised), then latches, then gates
        (i + 1..=i + l + a).collect()
    } else {
        // a random injection of i+l+a definitions into 1..=m
        let mut v: Vec<u64> = if m <= 4096 {
            let mut all: Vec<u64> = (1..=m).collect();
            rng.shuffle(&mut all);
            all.truncate((i + l + a) as usize);
            all
        } else {
            // sparse: distinct random variables
            let mut set = std::collections::BTreeSet::new();
            while (set.len() as u64) < i + l + a {
                set.insert(1 + rng.below(m));
            }
            let mut v: Vec<u64> = set.into_iter().collect();
            rng.shuffle(&mut v);
            v
        };
        if rng.chance(1, 3) {
            v.sort();
        }
        v
    };
    let any_lit = |rng: &mut Rng| -> u64 {
        match rng.below(8) {
            0 => 0,
            1 => 1,
            2 => 2 * m + 1,
            3 => 2 * m,
            _ => rng.range(0, 2 * m + 1),
        }
    };
    let inputs: Vec<u64> = if binary {
        vec![]
    } else {
        vars[..i as usize].iter().map(|v| 2 * v).collect()
    };
    let voff = if binary { 0 } else { i as usize };
    let mut latches = vec![];
    for k in 0..l as usize {
        let st = 2 * vars[voff + k];
        let init = match rng.below(4) {
            0 => Init::ZeroOmitted,
            1 => Init::ZeroExplicit,
            2 => Init::One,
            _ => Init::Own,
        };
        latches.push((st, any_lit(rng), init));
    }
    let mut ands = vec![];
    for k in 0..a as usize {
        let out = 2 * vars[voff + l as usize + k];
        if binary {
            // inputs below the output, larger first
            let x = rng.below(out);
            let y = rng.below(x + 1);
            let (x, y) = match rng.below(8) {
                6 | 7 => {
                    // deltas of every 7-bit length, with weight on the 7-bit group boundaries
                    // (2^(7k)-1, 2^(7k), 2^(7k)+1) and on 0
                    let bits = 64 - out.leading_zeros() as u64;
                    let mut delta = |rng: &mut Rng, max: u64| -> u64 {
                        let d = match rng.below(4) {
                            0 => 1u64 << rng.below(bits.max(1)),
                            1 => 0,
                            _ => {
                                let k = 7 * (1 + rng.below(9));
                                (1u64 << k.min(63)).wrapping_add(rng.below(3)).wrapping_sub(1)
                            }
                        };
                        d.min(max)
                    };
                    let d0 = delta(rng, out).max(1);
                    let x = out - d0;
                    let y = x - delta(rng, x);
                    (x, y)
                }
                0 => (out - 1, out - 1),
                1 => (out - 1, 0),
                2 => (1, 0),
                3 => (x, x),
                _ => (x, y),
            };
            ands.push((out, x, y));
        } else {
            ands.push((out, any_lit(rng), any_lit(rng)));
        }
    }
    let lits = |rng: &mut Rng, n: u64| -> Vec<u64> { (0..n).map(|_| any_lit(rng)).collect() };
    let outputs = lits(rng, o);
    let bad = lits(rng, bcnt);
    let constr = lits(rng, ccnt);
    let fair = lits(rng, fcnt);
    let mut justice: Vec<Vec<u64>> = (0..jcnt)
        .map(|_| {
            let n = match rng.below(4) {
                0 => 0,
                1 => 1,
                _ => rng.below(5),
            };
            lits(rng, n)
        })
        .collect();
    if let Some(n) = want(7) {
        let k = rng.usize(justice.len());
        justice[k] = lits(rng, n);
    }
    // symbols
    let mut symbols = vec![];
    let counts = [
        (b'i', i),
        (b'l', l),
        (b'o', o),
        (b'b', bcnt),
        (b'c', ccnt),
        (b'j', jcnt),
        (b'f', fcnt),
    ];
    if rng.chance(2, 3) {
        for &(k, c) in &counts {
            if c == 0 {
                continue;
            }
            let n = match rng.below(4) {
                0 => 0,
                1 => 1,
                _ => 1 + rng.below(3),
            };
            for _ in 0..n {
                let idx = match rng.below(3) {
                    0 => 0,
                    1 => c - 1,
                    _ => rng.below(c),
                };
                symbols.push((k, idx, utf8_name(rng, false)));
            }
        }
        if rng.chance(1, 3) {
            rng.shuffle(&mut symbols);
        }
    }
    if let Some(n) = want(9) {
        let kinds: Vec<(u8, u64)> = counts.iter().copied().filter(|c| c.1 > 0).collect();
        if !kinds.is_empty() {
            for _ in 0..n {
                let (k, c) = *rng.pick(&kinds);
                symbols.push((k, rng.below(c), utf8_name(rng, false)));
            }
        }
    }
    let comment = if rng.chance(1, 3) {
        Some(match rng.below(4) {
            0 => vec![],
            1 => b"one line".to_vec(),
            _ => utf8_name(rng, true),
        })
    } else {
        None
    };
    let needed = if fcnt > 0 {
        9
    } else if jcnt > 0 {
        8
    } else if ccnt > 0 {
        7
    } else if bcnt > 0 {
        6
    } else {
        5
    };
    let header_fields = if rng.chance(1, 4) { needed + rng.usize(9 - needed + 1) } else { needed };
    AigerDoc {
        binary,
        m,
        inputs,
        n_inputs: i,
        latches,
        outputs,
        bad,
        constr,
        justice,
        fair,
        ands,
        symbols,
        comment,
        header_fields,
    }
}

pub fn varint(mut v: u64) -> Vec<u8> {
    let mut out = vec![];
    loop {
        let b = (v & 0x7f) as u8;
        v >>= 7;
        if v == 0 {
            out.push(b);
            break;
        }
        out.push(b | 0x80);
    }
    out
}

impl AigerDoc {
    pub fn header_numbers(&self) -> [u64; 9] {
        [
            self.m,
            self.n_inputs,
            self.latches.len() as u64,
            self.outputs.len() as u64,
            self.ands.len() as u64,
            self.bad.len() as u64,
            self.constr.len() as u64,
            self.justice.len() as u64,
            self.fair.len() as u64,
        ]
    }
}

pub fn render_aiger(doc: &AigerDoc, lt: u8) -> Doc {
    let mut b = B::new();
    let h = doc.header_numbers();
    let max_m = (max_code(lt) - 1) / 2;
    b.tok(if doc.binary { b"aig" } else { b"aag" }, Role::Keyword, "magic", None);
    let names = [
        "header:M", "header:I", "header:L", "header:O", "header:A", "header:B", "header:C", "header:J", "header:F",
    ];
    let mut limit = h[0];
    for k in 0..doc.header_fields {
        b.sep();
        let lim = match k {
            0 => Some(max_m.to_string()),
            1 => Some(limit.to_string()),
            2 => {
                limit -= h[1];
                Some(limit.to_string())
            }
            4 => {
                limit -= h[2];
                Some(limit.to_string())
            }
            _ => None,
        };
        b.num(h[k], names[k], lim);
    }
    b.nl();
    b.item(format!(
        "H {} {} {} {} {} {} {} {} {}",
        h[0], h[1], h[2], h[3], h[4], h[5], h[6], h[7], h[8]
    ));
    let maxlit = (2 * doc.m + 1).to_string();
    if !doc.binary {
        for &x in &doc.inputs {
            b.num(x, "input", Some(maxlit.clone()));
            b.nl();
            b.item(format!("IN {}", x));
        }
    }
    for &(st, next, init) in &doc.latches {
        if !doc.binary {
            b.num(st, "latch_state", Some(maxlit.clone()));
            b.sep();
        }
        b.num(next, "latch_next", Some(maxlit.clone()));
        let istr = match init {
            Init::ZeroOmitted => "0",
            Init::ZeroExplicit => {
                b.sep();
                b.num(0, "latch_init", None);
                "0"
            }
            Init::One => {
                b.sep();
                b.num(1, "latch_init", None);
                "1"
            }
            Init::Own => {
                b.sep();
                b.num(st, "latch_init", None);
                "x"
            }
        };
        b.nl();
        if doc.binary {
            b.item(format!("LATCH {} {}", next, istr));
        } else {
            b.item(format!("LATCH {} {} {}", st, next, istr));
        }
    }
    let simple = |b: &mut B, xs: &[u64], what: &'static str, tag: &str| {
        for &x in xs {
            b.num(x, what, Some(maxlit.clone()));
            b.nl();
            b.item(format!("{} {}", tag, x));
        }
    };
    simple(&mut b, &doc.outputs, "output", "OUT");
    simple(&mut b, &doc.bad, "bad", "BAD");
    simple(&mut b, &doc.constr, "constraint", "CONSTR");
    for j in &doc.justice {
        b.num(j.len(), "justice_size", None);
        b.nl();
        b.item(format!("JSIZE {}", j.len()));
    }
    for j in &doc.justice {
        simple(&mut b, j, "justice_lit", "JLIT");
    }
    simple(&mut b, &doc.fair, "fairness", "FAIR");
    if doc.binary {
        b.raw_mode = true;
        b.cut_here();
        for &(out, x, y) in &doc.ands {
            let d0 = varint(out - x);
            let d1 = varint(x - y);
            b.tok(&d0, Role::Binary, "delta0", None);
            b.tok(&d1, Role::Binary, "delta1", None);
            b.cut_here();
            b.item(format!("AND {} {}", x, y));
        }
        b.raw_mode = false;
    } else {
        for &(out, x, y) in &doc.ands {
            b.num(out, "and_out", Some(maxlit.clone()));
            b.sep();
            b.num(x, "and_in0", Some(maxlit.clone()));
            b.sep();
            b.num(y, "and_in1", Some(maxlit.clone()));
            b.nl();
            b.item(format!("AND {} {} {}", out, x, y));
        }
    }
    let counts = |k: u8| -> u64 {
        match k {
            b'i' => h[1],
            b'l' => h[2],
            b'o' => h[3],
            b'b' => h[5],
            b'c' => h[6],
            b'j' => h[7],
            _ => h[8],
        }
    };
    for (k, idx, name) in &doc.symbols {
        b.tok(&[*k], Role::Keyword, "symkind", None);
        b.num(*idx, "symidx", Some((counts(*k) - 1).to_string()));
        b.sep();
        b.tok(name, Role::Name, "symname", None);
        b.nl();
        b.item(format!("SYM {}{} {}", *k as char, idx, hex(name)));
    }
    if let Some(c) = &doc.comment {
        b.tok(b"c", Role::Keyword, "comment_start", None);
        b.nl();
        b.tok(c, Role::Comment, "comment", None);
        b.nl();
        b.item(format!("COMMENT {}", hex(c)));
    }
    b.finish()
}

// =============================================================================== BTOR2

pub const UNARY_PLAIN: [&str; 7] = ["not", "inc", "dec", "neg", "redand", "redor", "redxor"];
pub const BINARY_OPS: [&str; 40] = [
    "iff", "implies", "eq", "neq", "ugt", "sgt", "ugte", "sgte", "ult", "slt", "ulte", "slte", "and", "nand", "nor",
    "or", "xnor", "xor", "rol", "ror", "sll", "sra", "srl", "add", "mul", "udiv", "sdiv", "smod", "urem", "srem",
    "sub", "uaddo", "saddo", "sdivo", "umulo", "smulo", "usubo", "ssubo", "concat", "read",
];
pub const TERNARY_OPS: [&str; 2] = ["ite", "write"];

#[derive(Clone, Debug)]
pub enum BKind {
    SortBitvec(u64),
    SortArray(u64, u64),
    /// keyword (const/constd/consth), sort, digits
    Const(&'static str, u64, String),
    /// one/ones/zero/input/state
    Nullary(&'static str, u64),
    /// uext/sext: sort, arg, width
    Ext(&'static str, u64, u64, u64),
    Slice(u64, u64, u64, u64),
    Unary(&'static str, u64, u64),
    Binary(&'static str, u64, u64, u64),
    Ternary(&'static str, u64, u64, u64, u64),
    /// init/next: sort, state, value
    Assign(&'static str, u64, u64, u64),
    /// bad/constraint/fair/output: value
    Out(&'static str, u64),
    Justice(Vec<u64>),
}

#[derive(Clone, Debug)]
pub enum BLine {
    Comment(Vec<u8>),
    Node {
        id: u64,
        kind: BKind,
        symbol: Option<Vec<u8>>,
        comment: Option<Vec<u8>>,
    },
}

#[derive(Clone, Debug)]
pub struct BtorDoc {
    pub lines: Vec<BLine>,
    /// layout: number of blank lines / leading spaces before each line, final newline present
    pub pre_blank: Vec<u8>,
    pub pre_space: Vec<u8>,
    pub final_newline: bool,
}

fn gen_id(rng: &mut Rng) -> u64 {
    match rng.below(8) {
        0 => u64::MAX,
        1 => 1,
        2 => rng.next() | 1,
        3 => 10u64.pow(rng.below(20) as u32).saturating_sub(rng.below(2)).max(1),
        _ => 1 + rng.below(500),
    }
}

fn gen_u(rng: &mut Rng) -> u64 {
    match rng.below(6) {
        0 => 0,
        1 => u64::MAX,
        2 => rng.next(),
        _ => rng.below(200),
    }
}

fn btor_bytes(rng: &mut Rng, symbol: bool) -> Vec<u8> {
    let n = if symbol { 1 + rng.usize(12) } else { rng.usize(30) };
    let mut v = vec![];
    for i in 0..n {
        let c = match rng.below(12) {
            0 => 0xff,
            1 => 0x80 + rng.below(0x40) as u8,
            2 => b'\t',
            3 => b'\r',
            4 => b';',
            5 => b'0' + rng.below(10) as u8,
            6 if !symbol => b' ',
            7 => rng.below(256) as u8,
            _ => b'a' + rng.below(26) as u8,
        };
        let bad = c == b'\n' || (symbol && (c == b' ' || (i == 0 && c == b';')));
        v.push(if bad { b'_' } else { c });
    }
    v
}

pub fn gen_btor_line(rng: &mut Rng, which: u64) -> BLine {
    if which == u64::MAX && rng.chance(1, 8) {
        return BLine::Comment(btor_bytes(rng, false));
    }
    let nkinds = 12 + UNARY_PLAIN.len() as u64 + BINARY_OPS.len() as u64 + TERNARY_OPS.len() as u64;
    let w = if which == u64::MAX { rng.below(nkinds) } else { which % nkinds };
    let digits = |rng: &mut Rng, alpha: &[u8]| -> String {
        let big = rng.chance(1, 10);
        let n = 1 + rng.usize(if big { 300 } else { 12 });
        (0..n).map(|_| *rng.pick(alpha) as char).collect()
    };
    let kind = match w {
        0 => BKind::SortBitvec(gen_id(rng)),
        1 => BKind::SortArray(gen_id(rng), gen_id(rng)),
        2 => BKind::Const("const", gen_id(rng), digits(rng, b"01")),
        3 => {
            let mut d = digits(rng, b"0123456789");
            if rng.chance(1, 3) {
                d.insert(0, '-');
            }
            BKind::Const("constd", gen_id(rng), d)
        }
        4 => BKind::Const("consth", gen_id(rng), digits(rng, b"0123456789abcdefABCDEF")),
        5 => BKind::Nullary(*rng.pick(&["one", "ones", "zero", "input", "state"]), gen_id(rng)),
        6 => BKind::Ext(*rng.pick(&["uext", "sext"]), gen_id(rng), gen_id(rng), gen_u(rng)),
        7 => BKind::Slice(gen_id(rng), gen_id(rng), gen_u(rng), gen_u(rng)),
        8 => BKind::Assign(*rng.pick(&["init", "next"]), gen_id(rng), gen_id(rng), gen_id(rng)),
        9 => BKind::Out(*rng.pick(&["bad", "constraint", "fair", "output"]), gen_id(rng)),
        10 => {
            let big = rng.chance(1, 10);
            let n = 1 + rng.usize(if big { 40 } else { 4 });
            BKind::Justice((0..n).map(|_| gen_id(rng)).collect())
        }
        11 => BKind::Nullary(*rng.pick(&["one", "ones", "zero", "input", "state"]), gen_id(rng)),
        x if x < 12 + UNARY_PLAIN.len() as u64 => BKind::Unary(UNARY_PLAIN[(x - 12) as usize], gen_id(rng), gen_id(rng)),
        x if x < 12 + (UNARY_PLAIN.len() + BINARY_OPS.len()) as u64 => BKind::Binary(
            BINARY_OPS[(x - 12 - UNARY_PLAIN.len() as u64) as usize],
            gen_id(rng),
            gen_id(rng),
            gen_id(rng),
        ),
        x => BKind::Ternary(
            TERNARY_OPS[(x - 12 - (UNARY_PLAIN.len() + BINARY_OPS.len()) as u64) as usize],
            gen_id(rng),
            gen_id(rng),
            gen_id(rng),
            gen_id(rng),
        ),
    };
    let symbol = if rng.chance(1, 3) {
        Some(btor_bytes(rng, true))
    } else {
        None
    };
    let comment = if rng.chance(1, 3) {
        Some(btor_bytes(rng, false))
    } else {
        None
    };
    BLine::Node {
        id: gen_id(rng),
        kind,
        symbol,
        comment,
    }
}

pub fn gen_btor(rng: &mut Rng, size: usize, free_layout: bool) -> BtorDoc {
    let n = match rng.below(5) {
        0 => 0,
        1 => 1,
        _ => rng.usize(size + 1),
    };
    let start = rng.next();
    let cover = rng.chance(1, 3);
    let mut lines: Vec<BLine> = (0..n)
        .map(|i| gen_btor_line(rng, if cover { start.wrapping_add(i as u64) % 1000 } else { u64::MAX }))
        .collect();
    if size >= 400 && n > 0 && rng.chance(1, 3) {
        // items larger than any reservation cap / than the reader's chunk: a justice line with thousands of
        // nodes, a constant with thousands of digits, a symbol and a comment longer than 16 KiB
        for _ in 0..1 + rng.usize(3) {
            let k = rng.usize(n);
            let long = |rng: &mut Rng, n: usize, symbol: bool| -> Vec<u8> {
                let mut v = vec![];
                while v.len() < n {
                    let mut part = btor_bytes(rng, symbol);
                    if symbol && !v.is_empty() && part.first() == Some(&b';') {
                        part[0] = b'_';
                    }
                    v.extend_from_slice(&part);
                }
                v
            };
            if let BLine::Node { kind, symbol, comment, .. } = &mut lines[k] {
                match rng.below(4) {
                    0 => *kind = BKind::Justice((0..long_count(rng)).map(|_| gen_id(rng)).collect()),
                    1 => {
                        let n = long_count(rng) as usize * 4;
                        *kind = BKind::Const("consth", gen_id(rng), (0..n).map(|_| *rng.pick(b"0123456789abcdefABCDEF") as char).collect());
                    }
                    2 => *symbol = Some(long(rng, 17_000, true)),
                    _ => *comment = Some(long(rng, 17_000, false)),
                }
            } else {
                lines[k] = BLine::Comment(long(rng, 17_000, false));
            }
        }
    }
    let mut pre_blank = vec![0u8; n];
    let mut pre_space = vec![0u8; n];
    if free_layout {
        for i in 0..n {
            if rng.chance(1, 6) {
                pre_blank[i] = 1 + rng.below(2) as u8;
            }
            if rng.chance(1, 6) {
                pre_space[i] = 1 + rng.below(3) as u8;
            }
        }
    }
    // a last line that ends in a comment may omit the final newline
    let last_has_comment = matches!(
        lines.last(),
        Some(BLine::Comment(_)) | Some(BLine::Node { comment: Some(_), .. })
    );
    let final_newline = !(free_layout && last_has_comment && rng.chance(1, 3));
    BtorDoc {
        lines,
        pre_blank,
        pre_space,
        final_newline,
    }
}

pub fn btor_item(line: &BLine) -> String {
    match line {
        BLine::Comment(c) => format!("COMMENT {}", hex(c)),
        BLine::Node {
            id,
            kind,
            symbol,
            comment,
        } => {
            let mut s = format!("N {} ", id);
            match kind {
                BKind::SortBitvec(w) => s.push_str(&format!("sort bitvec {}", w)),
                BKind::SortArray(d, c) => s.push_str(&format!("sort array {} {}", d, c)),
                BKind::Const(k, sort, d) => s.push_str(&format!("{} {} {}", k, sort, d)),
                BKind::Nullary(k, sort) => s.push_str(&format!("{} {}", k, sort)),
                BKind::Ext(k, sort, a, w) => s.push_str(&format!("{}[{}] {} {}", k, w, sort, a)),
                BKind::Slice(sort, a, u, l) => s.push_str(&format!("slice[{},{}] {} {}", u, l, sort, a)),
                BKind::Unary(k, sort, a) => s.push_str(&format!("{} {} {}", k, sort, a)),
                BKind::Binary(k, sort, a, b) => s.push_str(&format!("{} {} {} {}", k, sort, a, b)),
                BKind::Ternary(k, sort, a, b, c) => s.push_str(&format!("{} {} {} {} {}", k, sort, a, b, c)),
                BKind::Assign(k, sort, st, v) => s.push_str(&format!("{} {} {} {}", k, sort, st, v)),
                BKind::Out(k, v) => s.push_str(&format!("{} {}", k, v)),
                BKind::Justice(ns) => {
                    s.push_str(&format!("justice {}", ns.len()));
                    for n in ns {
                        s.push_str(&format!(" {}", n));
                    }
                }
            }
            if let Some(sym) = symbol {
                s.push_str(&format!(" |sym={}", hex(sym)));
            }
            if let Some(c) = comment {
                s.push_str(&format!(" |com={}", hex(c)));
            }
            s
        }
    }
}

pub fn render_btor(doc: &BtorDoc) -> Doc {
    let mut b = B::new();
    let n = doc.lines.len();
    for (i, line) in doc.lines.iter().enumerate() {
        for _ in 0..doc.pre_blank[i] {
            b.nl();
        }
        for _ in 0..doc.pre_space[i] {
            b.raw(b" ");
        }
        match line {
            BLine::Comment(c) => {
                b.tok(b";", Role::Keyword, "comment_start", None);
                b.tok(c, Role::Comment, "comment", None);
            }
            BLine::Node {
                id,
                kind,
                symbol,
                comment,
            } => {
                b.num(*id, "id", Some(u64::MAX.to_string()));
                b.sep();
                let id_tok = |b: &mut B, v: u64, what: &'static str| {
                    b.sep();
                    b.num(v, what, Some(u64::MAX.to_string()));
                };
                match kind {
                    BKind::SortBitvec(w) => {
                        b.tok(b"sort", Role::Keyword, "kw", None);
                        b.sep();
                        b.tok(b"bitvec", Role::Keyword, "sortkw", None);
                        id_tok(&mut b, *w, "width");
                    }
                    BKind::SortArray(d, c) => {
                        b.tok(b"sort", Role::Keyword, "kw", None);
                        b.sep();
                        b.tok(b"array", Role::Keyword, "sortkw", None);
                        id_tok(&mut b, *d, "sortid");
                        id_tok(&mut b, *c, "sortid");
                    }
                    BKind::Const(k, sort, d) => {
                        b.tok(k.as_bytes(), Role::Keyword, "kw", None);
                        id_tok(&mut b, *sort, "sortid");
                        b.sep();
                        b.tok(d.as_bytes(), Role::Name, "constdigits", None);
                    }
                    BKind::Nullary(k, sort) => {
                        b.tok(k.as_bytes(), Role::Keyword, "kw", None);
                        id_tok(&mut b, *sort, "sortid");
                    }
                    BKind::Ext(k, sort, a, w) => {
                        b.tok(k.as_bytes(), Role::Keyword, "kw", None);
                        id_tok(&mut b, *sort, "sortid");
                        id_tok(&mut b, *a, "arg");
                        id_tok(&mut b, *w, "index");
                    }
                    BKind::Slice(sort, a, u, l) => {
                        b.tok(b"slice", Role::Keyword, "kw", None);
                        id_tok(&mut b, *sort, "sortid");
                        id_tok(&mut b, *a, "arg");
                        id_tok(&mut b, *u, "index");
                        id_tok(&mut b, *l, "index");
                    }
                    BKind::Unary(k, sort, a) => {
                        b.tok(k.as_bytes(), Role::Keyword, "kw", None);
                        id_tok(&mut b, *sort, "sortid");
                        id_tok(&mut b, *a, "arg");
                    }
                    BKind::Binary(k, sort, x, y) => {
                        b.tok(k.as_bytes(), Role::Keyword, "kw", None);
                        id_tok(&mut b, *sort, "sortid");
                        id_tok(&mut b, *x, "arg");
                        id_tok(&mut b, *y, "arg");
                    }
                    BKind::Ternary(k, sort, x, y, z) => {
                        b.tok(k.as_bytes(), Role::Keyword, "kw", None);
                        id_tok(&mut b, *sort, "sortid");
                        id_tok(&mut b, *x, "arg");
                        id_tok(&mut b, *y, "arg");
                        id_tok(&mut b, *z, "arg");
                    }
                    BKind::Assign(k, sort, st, v) => {
                        b.tok(k.as_bytes(), Role::Keyword, "kw", None);
                        id_tok(&mut b, *sort, "sortid");
                        id_tok(&mut b, *st, "arg");
                        id_tok(&mut b, *v, "arg");
                    }
                    BKind::Out(k, v) => {
                        b.tok(k.as_bytes(), Role::Keyword, "kw", None);
                        id_tok(&mut b, *v, "arg");
                    }
                    BKind::Justice(ns) => {
                        b.tok(b"justice", Role::Keyword, "kw", None);
                        id_tok(&mut b, ns.len() as u64, "count");
                        for n in ns {
                            id_tok(&mut b, *n, "arg");
                        }
                    }
                }
                if let Some(sym) = symbol {
                    b.sep();
                    b.tok(sym, Role::Name, "symbol", None);
                }
                if let Some(c) = comment {
                    b.sep();
                    b.tok(b";", Role::Keyword, "comment_start", None);
                    b.tok(c, Role::Comment, "comment", None);
                }
            }
        }
        if i + 1 < n || doc.final_newline {
            b.nl();
        }
        b.item(btor_item(line));
    }
    b.finish()
}

// =============================================================================== byte-level mutation

pub fn alphabet(pk: PK) -> &'static [u8] {
    match pk {
        PK::Cnf | PK::Wcnf | PK::Gcnf => b"0123456789-  \t\n\r\ncp cnfwg{}",
        PK::Log => b"0123456789- \n\r\nvscSATIFBLEUNKOW",
        PK::Aag | PK::Aig => b"0123456789  \n\naigilobcjf\x80\xff\x00",
        PK::Btor2 => b"0123456789  \n\n;-abcdefinorstuvx",
    }
}

const BOUNDARY_NUMBERS: [&str; 24] = [
    "0", "1", "-1", "127", "128", "-128", "255", "256", "32767", "32768", "65535", "65536", "2147483647", "2147483648",
    "-2147483648", "4294967295", "4294967296", "9223372036854775807", "9223372036854775808", "-9223372036854775808",
    "18446744073709551615", "18446744073709551616", "99999999", "100000000",
];

/// Mutate `base` (1..=3 random edits). `other` is a second document for splicing.
pub fn mutate(rng: &mut Rng, pk: PK, base: &[u8], other: &[u8]) -> Vec<u8> {
    let mut v = base.to_vec();
    let edits = 1 + rng.usize(3);
    let alpha = alphabet(pk);
    for _ in 0..edits {
        let n = v.len();
        match rng.below(14) {
            0 if n > 0 => {
                let i = rng.usize(n);
                v[i] ^= 1 << rng.below(8);
            }
            1 if n > 0 => {
                let i = rng.usize(n);
                v[i] = *rng.pick(alpha);
            }
            2 => {
                let i = rng.usize(n + 1);
                v.insert(i, *rng.pick(alpha));
            }
            3 if n > 0 => {
                let i = rng.usize(n);
                v.remove(i);
            }
            4 if n > 0 => {
                // truncate
                let i = rng.usize(n + 1);
                v.truncate(i);
            }
            5 if n > 0 => {
                // duplicate a range
                let i = rng.usize(n);
                let l = 1 + rng.usize((n - i).min(20));
                let seg = v[i..i + l].to_vec();
                let at = rng.usize(n + 1);
                for (k, c) in seg.into_iter().enumerate() {
                    v.insert(at + k, c);
                }
            }
            6 if n > 0 => {
                // delete a range
                let i = rng.usize(n);
                let l = 1 + rng.usize((n - i).min(20));
                v.drain(i..i + l);
            }
            7 => {
                // splice with the other document
                let i = rng.usize(n + 1);
                let j = rng.usize(other.len() + 1);
                v.truncate(i);
                v.extend_from_slice(&other[j..]);
            }
            8 | 9 if n > 0 => {
                // replace a number token by a boundary number
                let i = rng.usize(n);
                let mut s = i;
                while s > 0 && (v[s - 1].is_ascii_digit() || v[s - 1] == b'-') {
                    s -= 1;
                }
                let mut e = i;
                while e < v.len() && (v[e].is_ascii_digit() || v[e] == b'-') {
                    e += 1;
                }
                if e > s {
                    let rep: Vec<u8> = if rng.chance(1, 6) {
                        let k = 20 + rng.usize(200);
                        (0..k).map(|_| b'0' + rng.below(10) as u8).collect()
                    } else {
                        rng.pick(&BOUNDARY_NUMBERS).as_bytes().to_vec()
                    };
                    v.splice(s..e, rep);
                }
            }
            10 if n > 0 => {
                // delete a whole line
                let i = rng.usize(n);
                let s = v[..i].iter().rposition(|&c| c == b'\n').map_or(0, |p| p + 1);
                let e = v[i..].iter().position(|&c| c == b'\n').map_or(n, |p| i + p + 1);
                v.drain(s..e);
            }
            11 if n > 0 => {
                // duplicate a whole line
                let i = rng.usize(n);
                let s = v[..i].iter().rposition(|&c| c == b'\n').map_or(0, |p| p + 1);
                let e = v[i..].iter().position(|&c| c == b'\n').map_or(n, |p| i + p + 1);
                let seg = v[s..e].to_vec();
                for (k, c) in seg.into_iter().enumerate() {
                    v.insert(e + k, c);
                }
            }
            12 => {
                let i = rng.usize(n + 1);
                v.insert(i, *rng.pick(&[0xffu8, 0x80, 0xc3, 0x00, b'\r']));
            }
            _ => {
                let i = rng.usize(n + 1);
                v.insert(i, rng.next() as u8);
            }
        }
        if v.len() > (1 << 20) {
            v.truncate(1 << 20);
        }
    }
    v
}

pub fn arbitrary(rng: &mut Rng, pk: PK, max: usize) -> Vec<u8> {
    let n = rng.usize(max + 1);
    if rng.chance(1, 3) {
        rng.bytes(n)
    } else {
        let a = alphabet(pk);
        (0..n).map(|_| *rng.pick(a)).collect()
    }
}
