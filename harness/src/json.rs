//! Minimal JSON value + writer (no parsing needed on the Rust side except for replay files, which
//! carry their parameters as a flat "k=v" argument list produced by the driver).

use std::collections::BTreeMap;
use std::fmt::Write;

#[derive(Clone, Debug)]
pub enum J {
    Null,
    B(bool),
    U(u64),
    I(i64),
    F(f64),
    S(String),
    A(Vec<J>),
    O(BTreeMap<String, J>),
}

impl J {
    pub fn obj() -> J {
        J::O(BTreeMap::new())
    }
    pub fn set(mut self, k: &str, v: J) -> J {
        if let J::O(m) = &mut self {
            m.insert(k.to_string(), v);
        }
        self
    }
    pub fn put(&mut self, k: &str, v: J) {
        if let J::O(m) = self {
            m.insert(k.to_string(), v);
        }
    }
    pub fn s(x: impl Into<String>) -> J {
        J::S(x.into())
    }
    pub fn u(x: impl TryInto<u64>) -> J {
        J::U(x.try_into().ok().unwrap_or(u64::MAX))
    }
    pub fn bytes(b: &[u8]) -> J {
        // printable excerpt + hex
        J::obj()
            .set("len", J::U(b.len() as u64))
            .set("text", J::S(excerpt(b, 200)))
            .set("hex", J::S(hex(&b[..b.len().min(4096)])))
    }
    pub fn write(&self, out: &mut String) {
        match self {
            J::Null => out.push_str("null"),
            J::B(b) => out.push_str(if *b { "true" } else { "false" }),
            J::U(u) => {
                let _ = write!(out, "{}", u);
            }
            J::I(i) => {
                let _ = write!(out, "{}", i);
            }
            J::F(f) => {
                if f.is_finite() {
                    let _ = write!(out, "{}", f);
                } else {
                    out.push_str("null");
                }
            }
            J::S(s) => write_str(s, out),
            J::A(a) => {
                out.push('[');
                for (i, x) in a.iter().enumerate() {
                    if i > 0 {
                        out.push(',');
                    }
                    x.write(out);
                }
                out.push(']');
            }
            J::O(m) => {
                out.push('{');
                for (i, (k, v)) in m.iter().enumerate() {
                    if i > 0 {
                        out.push(',');
                    }
                    write_str(k, out);
                    out.push(':');
                    v.write(out);
                }
                out.push('}');
            }
        }
    }
    pub fn to_string(&self) -> String {
        let mut s = String::new();
        self.write(&mut s);
        s
    }
}

fn write_str(s: &str, out: &mut String) {
    out.push('"');
    for c in s.chars() {
        match c {
            '"' => out.push_str("\\\""),
            '\\' => out.push_str("\\\\"),
            '\n' => out.push_str("\\n"),
            '\r' => out.push_str("\\r"),
            '\t' => out.push_str("\\t"),
            c if (c as u32) < 0x20 => {
                let _ = write!(out, "\\u{:04x}", c as u32);
            }
            c => out.push(c),
        }
    }
    out.push('"');
}

pub fn hex(b: &[u8]) -> String {
    let mut s = String::with_capacity(b.len() * 2);
    for x in b {
        let _ = write!(s, "{:02x}", x);
    }
    s
}

pub fn unhex(s: &str) -> Vec<u8> {
    let s = s.as_bytes();
    let mut v = Vec::with_capacity(s.len() / 2);
    let d = |c: u8| -> u8 {
        match c {
            b'0'..=b'9' => c - b'0',
            b'a'..=b'f' => c - b'a' + 10,
            b'A'..=b'F' => c - b'A' + 10,
            _ => 0,
        }
    };
    let mut i = 0;
    while i + 1 < s.len() {
        v.push(d(s[i]) * 16 + d(s[i + 1]));
        i += 2;
    }
    v
}

/// Printable excerpt of a byte string (escapes non-printables), at most `max` input bytes.
pub fn excerpt(b: &[u8], max: usize) -> String {
    let mut s = String::new();
    for &c in b.iter().take(max) {
        match c {
            b'\n' => s.push_str("\\n"),
            b'\r' => s.push_str("\\r"),
            b'\t' => s.push_str("\\t"),
            b'\\' => s.push_str("\\\\"),
            0x20..=0x7e => s.push(c as char),
            _ => {
                let _ = write!(s, "\\x{:02x}", c);
            }
        }
    }
    if b.len() > max {
        let _ = write!(s, "...(+{} bytes)", b.len() - max);
    }
    s
}
