//! fvh - runtime-monitoring harness for jix/flussab (see /verif/DESIGN.md).
#![allow(clippy::all)]
pub mod alloc;
pub mod c02;
pub mod c11;
pub mod c13;
pub mod c15;
pub mod c16;
pub mod json;
pub mod prng;
pub mod sink;
pub mod src;
pub mod work;
