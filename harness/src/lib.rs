//! fvh - runtime-monitoring harness for jix/flussab (see /verif/DESIGN.md).
#![allow(clippy::all)]
pub mod alloc;
pub mod c01;
pub mod c02;
pub mod c03;
pub mod c04;
pub mod c05;
pub mod c06;
pub mod c07;
pub mod c08;
pub mod c09;
pub mod c10;
pub mod c11;
pub mod c12;
pub mod c13;
pub mod c15;
pub mod c16;
pub mod corpus;
pub mod drive;
pub mod gen;
pub mod json;
pub mod prng;
pub mod refread;
pub mod sink;
pub mod src;
pub mod work;
