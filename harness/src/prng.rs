//! xoshiro256** with splitmix64 seeding; deterministic per (seed, stream, index).

#[derive(Clone, Debug)]
pub struct Rng {
    s: [u64; 4],
}

pub fn splitmix(x: &mut u64) -> u64 {
    *x = x.wrapping_add(0x9e3779b97f4a7c15);
    let mut z = *x;
    z = (z ^ (z >> 30)).wrapping_mul(0xbf58476d1ce4e5b9);
    z = (z ^ (z >> 27)).wrapping_mul(0x94d049bb133111eb);
    z ^ (z >> 31)
}

/// FNV-1a 64 bit, used for case hashes and stream ids.
pub fn fnv(data: &[u8]) -> u64 {
    let mut h: u64 = 0xcbf29ce484222325;
    for &b in data {
        h ^= b as u64;
        h = h.wrapping_mul(0x100000001b3);
    }
    h
}

pub fn mix(a: u64, b: u64) -> u64 {
    let mut x = a ^ b.rotate_left(32) ^ 0x632be59bd9b4e019;
    let r = splitmix(&mut x);
    r ^ splitmix(&mut x)
}

/// Incremental hasher for case identities.
#[derive(Clone, Copy)]
pub struct H(pub u64);
impl H {
    pub fn new() -> H {
        H(0xcbf29ce484222325)
    }
    pub fn b(mut self, data: &[u8]) -> H {
        for &b in data {
            self.0 ^= b as u64;
            self.0 = self.0.wrapping_mul(0x100000001b3);
        }
        self.u(data.len() as u64)
    }
    pub fn u(mut self, v: u64) -> H {
        self.0 = mix(self.0, v);
        self
    }
    pub fn get(self) -> u64 {
        self.0
    }
}

impl Rng {
    pub fn new(seed: u64) -> Rng {
        let mut x = seed;
        let s = [
            splitmix(&mut x),
            splitmix(&mut x),
            splitmix(&mut x),
            splitmix(&mut x),
        ];
        Rng { s }
    }
    pub fn for_case(seed: u64, stream: u64, idx: u64) -> Rng {
        Rng::new(mix(mix(seed, stream), idx))
    }
    pub fn fork(&mut self) -> Rng {
        Rng::new(self.next())
    }
    #[inline]
    pub fn next(&mut self) -> u64 {
        let r = self.s[1].wrapping_mul(5).rotate_left(7).wrapping_mul(9);
        let t = self.s[1] << 17;
        self.s[2] ^= self.s[0];
        self.s[3] ^= self.s[1];
        self.s[1] ^= self.s[2];
        self.s[0] ^= self.s[3];
        self.s[2] ^= t;
        self.s[3] = self.s[3].rotate_left(45);
        r
    }
    /// uniform in 0..n (n > 0)
    #[inline]
    pub fn below(&mut self, n: u64) -> u64 {
        debug_assert!(n > 0);
        ((self.next() as u128 * n as u128) >> 64) as u64
    }
    #[inline]
    pub fn usize(&mut self, n: usize) -> usize {
        self.below(n as u64) as usize
    }
    /// inclusive range
    #[inline]
    pub fn range(&mut self, lo: u64, hi: u64) -> u64 {
        if hi == u64::MAX && lo == 0 {
            return self.next();
        }
        lo + self.below(hi - lo + 1)
    }
    #[inline]
    pub fn chance(&mut self, num: u64, den: u64) -> bool {
        self.below(den) < num
    }
    pub fn pick<'a, T>(&mut self, xs: &'a [T]) -> &'a T {
        &xs[self.usize(xs.len())]
    }
    /// geometric-ish with the given mean (>= 1), at least 1
    pub fn geometric(&mut self, mean_x10: u64) -> usize {
        // success probability p = 10/mean_x10
        let mut n = 1usize;
        if mean_x10 <= 10 {
            return 1;
        }
        while self.below(mean_x10) >= 10 && n < (1 << 20) {
            n += 1;
        }
        n
    }
    /// small numbers most of the time, sometimes large: 0..=max
    pub fn skewed(&mut self, max: u64) -> u64 {
        if max == 0 {
            return 0;
        }
        match self.below(8) {
            0..=3 => self.below(max.min(4) + 1),
            4..=5 => self.below(max.min(20) + 1),
            6 => self.below(max.min(300) + 1),
            _ => self.range(0, max),
        }
    }
    pub fn bytes(&mut self, n: usize) -> Vec<u8> {
        (0..n).map(|_| self.next() as u8).collect()
    }
    pub fn shuffle<T>(&mut self, xs: &mut [T]) {
        for i in (1..xs.len()).rev() {
            let j = self.usize(i + 1);
            xs.swap(i, j);
        }
    }
}
