//! Independent reference readers (C06, and the line model of C08): a purely lexical reading of the
//! input bytes that shares no code with flussab. Numbers are compared as decimal strings (length,
//! then lexicographically); no machine integers take part in range decisions.
//!
//! `read()` returns Accept(items) when the input is a well-formed document that respects every
//! limit it declares (rendered exactly like drive.rs renders parser output), otherwise
//! Reject(reason). The readers implement the accepted language, so "parser accepts" must imply
//! "reference accepts with identical items".

use crate::c13::{dec_le, strip_zeros};
use crate::drive::{PCfg, PK};
use crate::gen::{max_code, max_dimacs};
use crate::json::hex;

#[derive(Debug, Clone, PartialEq, Eq)]
pub enum Ref {
    Accept(Vec<String>),
    Reject(String),
}

const U64_MAX: &str = "18446744073709551615";

fn is_digits(t: &[u8]) -> bool {
    !t.is_empty() && t.iter().all(|c| c.is_ascii_digit())
}

/// unsigned decimal token (leading zeros allowed) -> canonical text, checked against `max`
fn unum(t: &[u8], max: &str, what: &str) -> Result<String, String> {
    if !is_digits(t) {
        return Err(format!("{} is not a number: {:?}", what, String::from_utf8_lossy(t)));
    }
    let c = strip_zeros(t);
    if !dec_le(&c, max) {
        return Err(format!("{} {} exceeds {}", what, c, max));
    }
    Ok(c)
}

/// signed decimal token -> (canonical text, magnitude text)
fn inum(t: &[u8], what: &str) -> Result<(String, String), String> {
    let (neg, d) = match t.strip_prefix(b"-") {
        Some(d) => (true, d),
        None => (false, t),
    };
    if !is_digits(d) {
        return Err(format!("{} is not an integer: {:?}", what, String::from_utf8_lossy(t)));
    }
    let m = strip_zeros(d);
    let c = if neg && m != "0" { format!("-{}", m) } else { m.clone() };
    Ok((c, m))
}

fn lines_of(b: &[u8]) -> Vec<&[u8]> {
    // split at '\n'; a final piece without newline is a line too (unless empty)
    let mut v = vec![];
    let mut s = 0;
    for (i, &c) in b.iter().enumerate() {
        if c == b'\n' {
            v.push(&b[s..i]);
            s = i + 1;
        }
    }
    if s < b.len() {
        v.push(&b[s..]);
    }
    v
}

fn strip_cr(l: &[u8]) -> &[u8] {
    l.strip_suffix(b"\r").unwrap_or(l)
}

fn blank_split(l: &[u8]) -> Vec<&[u8]> {
    l.split(|c| *c == b' ' || *c == b'\t')
        .filter(|t| !t.is_empty())
        .collect()
}

// ------------------------------------------------------------------------------ DIMACS family

fn read_dimacs(cfg: PCfg, b: &[u8]) -> Result<Vec<String>, String> {
    let maxd = max_dimacs(cfg.lt).to_string();
    let usize_max = U64_MAX;
    let mut items = vec![];
    // (tokens, is_last_token_of_line) stream of the non-comment lines
    let mut toks: Vec<(&[u8], bool)> = vec![];
    let mut header: Option<[String; 3]> = None;
    let mut seen_statement = false;
    let raw_lines = lines_of(b);
    let n_lines = raw_lines.len();
    for (li, l) in raw_lines.into_iter().enumerate() {
        let has_newline = li + 1 < n_lines || b.last() == Some(&b'\n');
        // "\r\n" is a newline; a CR that is not followed by LF is not (the parsers reject it)
        let l = if has_newline { strip_cr(l) } else { l };
        let t = blank_split(l);
        if t.is_empty() {
            continue;
        }
        if t[0][0] == b'c' {
            continue; // comment line
        }
        if l.contains(&b'\r') {
            return Err("carriage return inside a line".into());
        }
        if !seen_statement && t[0] == b"p" {
            seen_statement = true;
            let want = match cfg.pk {
                PK::Cnf => (&b"cnf"[..], 4),
                PK::Wcnf => (&b"wcnf"[..], 5),
                _ => (&b"gcnf"[..], 5),
            };
            if t.len() != want.1 || t[1] != want.0 {
                return Err("malformed header line".into());
            }
            let v = unum(t[2], &maxd, "variable count")?;
            let c = unum(t[3], usize_max, "clause count")?;
            let third = if want.1 == 5 {
                unum(t[4], U64_MAX, "third header field")?
            } else {
                "0".into()
            };
            items.push(if cfg.pk == PK::Cnf {
                format!("H {} {}", v, c)
            } else {
                format!("H {} {} {}", v, c, third)
            });
            header = Some([v, c, third]);
            continue;
        }
        seen_statement = true;
        // "{g}" needs no blank after the closing brace
        let mut t2: Vec<&[u8]> = vec![];
        for tok in t {
            match tok.iter().position(|&c| c == b'}') {
                Some(i) if cfg.pk == PK::Gcnf && tok[0] == b'{' && i + 1 < tok.len() => {
                    t2.push(&tok[..=i]);
                    t2.push(&tok[i + 1..]);
                }
                _ => t2.push(tok),
            }
        }
        let n = t2.len();
        for (i, tok) in t2.into_iter().enumerate() {
            toks.push((tok, i + 1 == n));
        }
    }
    let enforce = !cfg.flag;
    let lit_limit = match &header {
        Some(h) if enforce && h[0] != "0" => h[0].clone(),
        _ => maxd.clone(),
    };
    let group_limit = match &header {
        Some(h) if enforce && cfg.pk == PK::Gcnf && h[2] != "0" => h[2].clone(),
        _ => usize_max.to_string(),
    };
    let mut i = 0;
    let mut nclauses: u64 = 0;
    while i < toks.len() {
        let mut prefix = String::new();
        match cfg.pk {
            PK::Wcnf => {
                prefix = format!("W {}|", unum(toks[i].0, U64_MAX, "clause weight")?);
                i += 1;
            }
            PK::Gcnf => {
                let t = toks[i].0;
                let inner = t
                    .strip_prefix(b"{")
                    .and_then(|t| t.strip_suffix(b"}"))
                    .ok_or_else(|| "expected a {group}".to_string())?;
                prefix = format!("G {}|", unum(inner, &group_limit, "group")?);
                i += 1;
            }
            _ => prefix.push_str("C "),
        }
        let mut lits: Vec<String> = vec![];
        loop {
            if i >= toks.len() {
                return Err("unterminated clause".into());
            }
            let (t, last_on_line) = toks[i];
            i += 1;
            let (c, m) = inum(t, "literal")?;
            if m == "0" {
                if !last_on_line {
                    return Err("terminating zero is not the last token of its line".into());
                }
                break;
            }
            if !dec_le(&m, &lit_limit) {
                return Err(format!("literal {} exceeds the limit {}", c, lit_limit));
            }
            lits.push(c);
        }
        items.push(format!("{}{}", prefix, lits.join(" ")));
        nclauses += 1;
    }
    if let Some(h) = &header {
        if enforce && h[1] != "0" && h[1] != nclauses.to_string() {
            return Err(format!("{} clauses, header declares {}", nclauses, h[1]));
        }
    }
    Ok(items)
}

// ------------------------------------------------------------------------------ solver log

fn read_log(cfg: PCfg, b: &[u8]) -> Result<Vec<String>, String> {
    let maxd = max_dimacs(cfg.lt).to_string();
    let mut sat: Option<&'static str> = None;
    let mut vals: Vec<String> = vec![];
    let (mut started, mut finished) = (false, false);
    let ls = lines_of(b);
    let n = ls.len();
    for (li, l) in ls.into_iter().enumerate() {
        let has_newline = li + 1 < n || b.last() == Some(&b'\n');
        if l.starts_with(b"c ") {
            continue;
        }
        let l2 = if has_newline { strip_cr(l) } else { l };
        if !finished && l.starts_with(b"v ") {
            started = true;
            if l2.contains(&b'\r') {
                return Err("carriage return inside a value line".into());
            }
            let t = blank_split(&l2[2..]);
            for (i, tok) in t.iter().enumerate() {
                let (c, m) = inum(tok, "value")?;
                if m == "0" {
                    if i + 1 != t.len() {
                        return Err("data after the terminating zero".into());
                    }
                    finished = true;
                    break;
                }
                if !dec_le(&m, &maxd) {
                    return Err(format!("value {} exceeds {}", c, maxd));
                }
                vals.push(c);
            }
        } else if sat.is_none() && l.starts_with(b"s ") {
            sat = Some(match &l2[2..] {
                b"SATISFIABLE" => "true",
                b"UNSATISFIABLE" => "false",
                b"UNKNOWN" => "unknown",
                _ => return Err("unknown solution line".into()),
            });
        } else if cfg.flag {
            continue;
        } else {
            return Err("unexpected line".into());
        }
    }
    if started && !finished {
        return Err("unterminated assignment".into());
    }
    Ok(vec![format!("LOG sat={} a={}", sat.unwrap_or("unknown"), vals.join(" "))])
}

// ------------------------------------------------------------------------------ AIGER

struct Cur<'a> {
    b: &'a [u8],
    p: usize,
    /// offsets at which a new line starts according to the format's structure
    line_starts: Vec<usize>,
}

impl<'a> Cur<'a> {
    fn peek(&self) -> Option<u8> {
        self.b.get(self.p).copied()
    }
    fn eat(&mut self, c: u8) -> Result<(), String> {
        if self.peek() == Some(c) {
            self.p += 1;
            if c == b'\n' {
                self.line_starts.push(self.p);
            }
            Ok(())
        } else {
            Err(format!("expected {:?} at offset {}", c as char, self.p))
        }
    }
    /// strict AIGER/BTOR2 unsigned: digits, no leading zero unless "0"
    fn strict_num(&mut self, max: &str, what: &str) -> Result<String, String> {
        let s = self.p;
        while matches!(self.peek(), Some(b'0'..=b'9')) {
            self.p += 1;
        }
        let t = &self.b[s..self.p];
        if t.is_empty() {
            return Err(format!("expected {} at offset {}", what, s));
        }
        if t.len() > 1 && t[0] == b'0' {
            return Err(format!("{} has leading zeros", what));
        }
        let c = String::from_utf8_lossy(t).to_string();
        if !dec_le(&c, max) {
            return Err(format!("{} {} exceeds {}", what, c, max));
        }
        Ok(c)
    }
    fn rest_of_line(&mut self) -> Result<&'a [u8], String> {
        let s = self.p;
        while let Some(c) = self.peek() {
            if c == b'\n' {
                let l = &self.b[s..self.p];
                self.p += 1;
                self.line_starts.push(self.p);
                return Ok(l);
            }
            self.p += 1;
        }
        Err("line without newline".into())
    }
}

fn dec_add(a: &str, b: &str) -> String {
    // decimal string addition
    let (a, b) = (a.as_bytes(), b.as_bytes());
    let mut out = vec![];
    let (mut i, mut j, mut carry) = (a.len(), b.len(), 0u8);
    while i > 0 || j > 0 || carry > 0 {
        let mut d = carry;
        if i > 0 {
            i -= 1;
            d += a[i] - b'0';
        }
        if j > 0 {
            j -= 1;
            d += b[j] - b'0';
        }
        out.push(b'0' + d % 10);
        carry = d / 10;
    }
    out.reverse();
    strip_zeros(&out)
}

fn dec_double_plus(a: &str, plus: u8) -> String {
    dec_add(&dec_add(a, a), &plus.to_string())
}

pub struct AigerRef {
    pub result: Result<Vec<String>, String>,
    /// structural line starts seen before the reading stopped (offset 0 included)
    pub line_starts: Vec<usize>,
    /// [start, end) of the binary gate section as far as it decoded
    pub gate_section: Option<(usize, usize)>,
    /// true once every declared gate decoded
    pub gates_complete: bool,
}

pub fn read_aiger_full(cfg: PCfg, b: &[u8]) -> AigerRef {
    let mut c = Cur {
        b,
        p: 0,
        line_starts: vec![0],
    };
    let mut gate_section = None;
    let mut gates_complete = false;
    let result = read_aiger_inner(cfg, &mut c, &mut gate_section, &mut gates_complete);
    AigerRef {
        result,
        line_starts: c.line_starts,
        gate_section,
        gates_complete,
    }
}

fn read_aiger_inner(
    cfg: PCfg,
    c: &mut Cur,
    gate_section: &mut Option<(usize, usize)>,
    gates_complete: &mut bool,
) -> Result<Vec<String>, String> {
    let binary = cfg.pk == PK::Aig;
    let magic: &[u8] = if binary { b"aig" } else { b"aag" };
    if !c.b.starts_with(magic) {
        return Err("bad magic".into());
    }
    c.p = 3;
    let max_m = ((max_code(cfg.lt) - 1) / 2).to_string();
    let mut h: Vec<String> = vec![];
    for k in 0..9 {
        if k < 5 {
            c.eat(b' ')?;
        } else if c.peek() == Some(b' ') {
            c.p += 1;
        } else {
            break;
        }
        h.push(c.strict_num(if k == 0 { &max_m } else { U64_MAX }, "header field")?);
    }
    c.eat(b'\n')?;
    while h.len() < 9 {
        h.push("0".into());
    }
    // I + L + A <= M
    if !dec_le(&dec_add(&dec_add(&h[1], &h[2]), &h[4]), &h[0]) {
        return Err("I+L+A exceeds M".into());
    }
    let mut items = vec![format!("H {}", h.join(" "))];
    let maxlit = dec_double_plus(&h[0], 1);
    let cnt = |s: &str| -> u64 { s.parse::<u64>().unwrap_or(u64::MAX) };
    let (ni, nl, no, na, nb, nc, nj, nf) = (
        cnt(&h[1]),
        cnt(&h[2]),
        cnt(&h[3]),
        cnt(&h[4]),
        cnt(&h[5]),
        cnt(&h[6]),
        cnt(&h[7]),
        cnt(&h[8]),
    );
    let defining = |c: &mut Cur, what: &str| -> Result<String, String> {
        let v = c.strict_num(U64_MAX, what)?;
        let last = v.as_bytes()[v.len() - 1] - b'0';
        if v == "0" || last % 2 == 1 {
            return Err(format!("{} {} is not a positive even literal", what, v));
        }
        if !dec_le(&v, &maxlit) {
            return Err(format!("{} {} exceeds {}", what, v, maxlit));
        }
        Ok(v)
    };
    let any = |c: &mut Cur, what: &str| -> Result<String, String> { c.strict_num(&maxlit, what) };
    if !binary {
        for _ in 0..ni {
            let v = defining(c, "input")?;
            c.eat(b'\n')?;
            items.push(format!("IN {}", v));
        }
    }
    for k in 0..nl {
        let state = if binary {
            // implicit: 2 * (I + 1 + k)
            dec_double_plus(&dec_add(&h[1], &(k + 1).to_string()), 0)
        } else {
            let s = defining(c, "latch state")?;
            c.eat(b' ')?;
            s
        };
        let next = any(c, "latch next")?;
        let mut init = "0";
        if c.peek() == Some(b' ') {
            c.p += 1;
            let i = any(c, "latch init")?;
            init = if i == "0" {
                "0"
            } else if i == "1" {
                "1"
            } else if i == state {
                "x"
            } else {
                return Err("invalid latch initialisation".into());
            };
        }
        c.eat(b'\n')?;
        items.push(if binary {
            format!("LATCH {} {}", next, init)
        } else {
            format!("LATCH {} {} {}", state, next, init)
        });
    }
    for (n, tag) in [(no, "OUT"), (nb, "BAD"), (nc, "CONSTR")] {
        for _ in 0..n {
            let v = any(c, tag)?;
            c.eat(b'\n')?;
            items.push(format!("{} {}", tag, v));
        }
    }
    let mut total = "0".to_string();
    for _ in 0..nj {
        let v = c.strict_num(U64_MAX, "justice size")?;
        c.eat(b'\n')?;
        total = dec_add(&total, &v);
        if !dec_le(&total, U64_MAX) {
            return Err("justice sizes overflow".into());
        }
        items.push(format!("JSIZE {}", v));
    }
    for _ in 0..cnt(&total) {
        let v = any(c, "justice literal")?;
        c.eat(b'\n')?;
        items.push(format!("JLIT {}", v));
    }
    for _ in 0..nf {
        let v = any(c, "FAIR")?;
        c.eat(b'\n')?;
        items.push(format!("FAIR {}", v));
    }
    if binary {
        let start = c.p;
        *gate_section = Some((start, start));
        // codes as u128 to stay clear of wrap-around; values are < 2^65
        let mut code: u128 = 2 * (ni as u128 + nl as u128 + 1);
        let varint = |c: &mut Cur| -> Result<u128, String> {
            let mut v: u128 = 0;
            let mut n = 0;
            loop {
                let byte = c.peek().ok_or("end of data inside a binary number")?;
                c.p += 1;
                v |= ((byte & 0x7f) as u128) << (7 * n);
                n += 1;
                if byte & 0x80 == 0 {
                    break;
                }
                if n == 10 {
                    return Err("binary number longer than 10 bytes".into());
                }
            }
            if v > u64::MAX as u128 {
                return Err("binary number exceeds 64 bits".into());
            }
            Ok(v)
        };
        for _ in 0..na {
            let d0 = varint(c)?;
            if d0 > code {
                return Err("delta0 exceeds the gate code".into());
            }
            let in0 = code - d0;
            let d1 = varint(c)?;
            if d1 > in0 {
                return Err("delta1 exceeds the first input".into());
            }
            let in1 = in0 - d1;
            items.push(format!("AND {} {}", in0, in1));
            code += 2;
            *gate_section = Some((start, c.p));
        }
        *gates_complete = true;
    } else {
        for _ in 0..na {
            let o = defining(c, "and output")?;
            c.eat(b' ')?;
            let a = any(c, "and input")?;
            c.eat(b' ')?;
            let b2 = any(c, "and input")?;
            c.eat(b'\n')?;
            items.push(format!("AND {} {} {}", o, a, b2));
        }
    }
    // symbols
    loop {
        let Some(k) = c.peek() else { return Ok(items) };
        let count = match k {
            b'i' => ni,
            b'o' => no,
            b'l' => nl,
            b'b' => nb,
            b'c' => nc,
            b'j' => nj,
            b'f' => nf,
            _ => return Err(format!("unexpected byte at offset {}", c.p)),
        };
        if k == b'c' && (count == 0 || c.b.get(c.p + 1) == Some(&b'\n')) {
            break;
        }
        if count == 0 {
            return Err("symbol for an empty section".into());
        }
        c.p += 1;
        let idx = c.strict_num(&(count - 1).to_string(), "symbol index")?;
        c.eat(b' ')?;
        let name = c.rest_of_line()?;
        if std::str::from_utf8(name).is_err() {
            return Err("symbol name is not UTF-8".into());
        }
        items.push(format!("SYM {}{} {}", k as char, idx, hex(name)));
    }
    // comment section: "c\n" then the rest of the file
    c.eat(b'c')?;
    c.eat(b'\n')?;
    let rest = &c.b[c.p..];
    if std::str::from_utf8(rest).is_err() {
        return Err("comment is not UTF-8".into());
    }
    let content: &[u8] = if rest.is_empty() {
        rest
    } else if rest.last() == Some(&b'\n') {
        &rest[..rest.len() - 1]
    } else {
        return Err("comment without final newline".into());
    };
    items.push(format!("COMMENT {}", hex(content)));
    c.p = c.b.len();
    Ok(items)
}

// ------------------------------------------------------------------------------ BTOR2

fn read_btor(b: &[u8]) -> Result<Vec<String>, String> {
    let mut items = vec![];
    let mut p = 0usize;
    let n = b.len();
    loop {
        // skip spaces and newlines
        while p < n && (b[p] == b' ' || b[p] == b'\n') {
            p += 1;
        }
        if p >= n {
            return Ok(items);
        }
        let eol = b[p..].iter().position(|&c| c == b'\n').map(|i| p + i);
        let line_end = eol.unwrap_or(n);
        let line = &b[p..line_end];
        if line[0] == b';' {
            items.push(format!("COMMENT {}", hex(&line[1..])));
            p = line_end;
            continue;
        }
        let mut c = Cur {
            b: line,
            p: 0,
            line_starts: vec![],
        };
        let pos = |c: &mut Cur, what: &str| -> Result<String, String> {
            let v = c.strict_num(U64_MAX, what)?;
            if v == "0" {
                return Err(format!("{} must be positive", what));
            }
            Ok(v)
        };
        let id = pos(&mut c, "node id")?;
        c.eat(b' ')?;
        let ks = c.p;
        while matches!(c.peek(), Some(b'a'..=b'z')) {
            c.p += 1;
        }
        let kw = std::str::from_utf8(&line[ks..c.p]).unwrap().to_string();
        let mut arg = |c: &mut Cur, positive: bool, what: &str| -> Result<String, String> {
            c.eat(b' ')?;
            if positive {
                pos(c, what)
            } else {
                c.strict_num(U64_MAX, what)
            }
        };
        let body = match kw.as_str() {
            "sort" => {
                c.eat(b' ')?;
                let ss = c.p;
                while matches!(c.peek(), Some(b'a'..=b'z')) {
                    c.p += 1;
                }
                match &line[ss..c.p] {
                    b"bitvec" => format!("sort bitvec {}", arg(&mut c, true, "width")?),
                    b"array" => {
                        let d = arg(&mut c, true, "sort id")?;
                        let e = arg(&mut c, true, "sort id")?;
                        format!("sort array {} {}", d, e)
                    }
                    _ => return Err("unknown sort keyword".into()),
                }
            }
            "init" | "next" => {
                let s = arg(&mut c, true, "sort id")?;
                let st = arg(&mut c, true, "node id")?;
                let v = arg(&mut c, true, "node id")?;
                format!("{} {} {} {}", kw, s, st, v)
            }
            "bad" | "constraint" | "fair" | "output" => format!("{} {}", kw, arg(&mut c, true, "node id")?),
            "justice" => {
                let cnt = arg(&mut c, true, "count")?;
                let k: u64 = cnt.parse().map_err(|_| "count")?;
                let mut s = format!("justice {}", cnt);
                for _ in 0..k {
                    if c.p >= line.len() {
                        return Err("justice: too few conditions".into());
                    }
                    s.push(' ');
                    s.push_str(&arg(&mut c, true, "node id")?);
                }
                s
            }
            "const" | "constd" | "consth" => {
                let s = arg(&mut c, true, "sort id")?;
                c.eat(b' ')?;
                let ds = c.p;
                match kw.as_str() {
                    "const" => {
                        while matches!(c.peek(), Some(b'0' | b'1')) {
                            c.p += 1;
                        }
                    }
                    "constd" => {
                        if c.peek() == Some(b'-') {
                            c.p += 1;
                        }
                        while matches!(c.peek(), Some(b'0'..=b'9')) {
                            c.p += 1;
                        }
                    }
                    _ => {
                        while matches!(c.peek(), Some(b'0'..=b'9' | b'a'..=b'f' | b'A'..=b'F')) {
                            c.p += 1;
                        }
                    }
                }
                if c.p == ds {
                    return Err("empty constant".into());
                }
                format!("{} {} {}", kw, s, String::from_utf8_lossy(&line[ds..c.p]))
            }
            "one" | "ones" | "zero" | "input" | "state" => format!("{} {}", kw, arg(&mut c, true, "sort id")?),
            "uext" | "sext" => {
                let s = arg(&mut c, true, "sort id")?;
                let a = arg(&mut c, true, "node id")?;
                let w = arg(&mut c, false, "width")?;
                format!("{}[{}] {} {}", kw, w, s, a)
            }
            "slice" => {
                let s = arg(&mut c, true, "sort id")?;
                let a = arg(&mut c, true, "node id")?;
                let u = arg(&mut c, false, "index")?;
                let l = arg(&mut c, false, "index")?;
                format!("slice[{},{}] {} {}", u, l, s, a)
            }
            "not" | "inc" | "dec" | "neg" | "redand" | "redor" | "redxor" => {
                let s = arg(&mut c, true, "sort id")?;
                let a = arg(&mut c, true, "node id")?;
                format!("{} {} {}", kw, s, a)
            }
            "ite" | "write" => {
                let s = arg(&mut c, true, "sort id")?;
                let a = arg(&mut c, true, "node id")?;
                let b2 = arg(&mut c, true, "node id")?;
                let d = arg(&mut c, true, "node id")?;
                format!("{} {} {} {} {}", kw, s, a, b2, d)
            }
            k if crate::gen::BINARY_OPS.contains(&k) => {
                let s = arg(&mut c, true, "sort id")?;
                let a = arg(&mut c, true, "node id")?;
                let b2 = arg(&mut c, true, "node id")?;
                format!("{} {} {} {}", kw, s, a, b2)
            }
            _ => return Err(format!("unknown keyword {:?}", kw)),
        };
        let mut item = format!("N {} {}", id, body);
        let mut has_comment = false;
        if c.p < line.len() {
            c.eat(b' ')?;
            if c.peek() == Some(b';') {
                item.push_str(&format!(" |com={}", hex(&line[c.p + 1..])));
                has_comment = true;
            } else {
                let ss = c.p;
                while c.p < line.len() && line[c.p] != b' ' {
                    c.p += 1;
                }
                if c.p == ss {
                    return Err("empty symbol".into());
                }
                item.push_str(&format!(" |sym={}", hex(&line[ss..c.p])));
                if c.p < line.len() {
                    c.eat(b' ')?;
                    if c.peek() != Some(b';') {
                        return Err("expected a comment after the symbol".into());
                    }
                    item.push_str(&format!(" |com={}", hex(&line[c.p + 1..])));
                    has_comment = true;
                }
            }
        }
        if eol.is_none() && !has_comment {
            return Err("node line without newline".into());
        }
        items.push(item);
        p = line_end;
    }
}

pub fn read(cfg: PCfg, b: &[u8]) -> Ref {
    let r = match cfg.pk {
        PK::Cnf | PK::Wcnf | PK::Gcnf => read_dimacs(cfg, b),
        PK::Log => read_log(cfg, b),
        PK::Aag | PK::Aig => read_aiger_full(cfg, b).result,
        PK::Btor2 => read_btor(b),
    };
    match r {
        Ok(items) => Ref::Accept(items),
        Err(e) => Ref::Reject(e),
    }
}
