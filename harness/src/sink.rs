//! Instrumented sinks (`Write`) with a scheduled acceptance behaviour and a full call log.

use crate::prng::Rng;
use std::cell::RefCell;
use std::io::{self, Write};
use std::rc::Rc;

#[derive(Clone, Debug, PartialEq, Eq)]
pub enum SinkEv {
    /// write(offered) -> Ok(accepted); the accepted prefix is appended to `received`
    Write { offered: Vec<u8>, accepted: usize },
    /// write(offered) -> Err(Interrupted)
    WriteIntr { offered_len: usize },
    /// write(offered) -> Err(other)
    WriteFail { offered_len: usize },
    /// write(offered) -> Ok(0) although offered was non-empty
    WriteZero { offered_len: usize },
    /// flush() -> Ok
    Flush,
    /// panicked inside write
    Panic,
}

#[derive(Clone, Debug)]
pub struct SinkPolicy {
    /// probability (out of 16) of a short write
    pub short: u64,
    /// probability (out of 16) of Interrupted
    pub intr: u64,
    /// fail (non-Interrupted error) exactly at these write-call numbers (1-based, counting every write call)
    pub fail_at: Vec<u64>,
    /// return Ok(0) at these write-call numbers
    pub zero_at: Vec<u64>,
    /// panic at this write call
    pub panic_at: Option<u64>,
}

impl SinkPolicy {
    pub fn accept_all() -> SinkPolicy {
        SinkPolicy {
            short: 0,
            intr: 0,
            fail_at: vec![],
            zero_at: vec![],
            panic_at: None,
        }
    }
}

pub struct SinkState {
    pub policy: SinkPolicy,
    pub rng: Rng,
    pub received: Vec<u8>,
    pub events: Vec<SinkEv>,
    pub write_calls: u64,
    pub flush_calls: u64,
    pub vectored_calls: u64,
    consecutive_intr: u32,
}

#[derive(Clone)]
pub struct Sink(pub Rc<RefCell<SinkState>>);

impl Sink {
    pub fn new(policy: SinkPolicy, seed: u64) -> Sink {
        Sink(Rc::new(RefCell::new(SinkState {
            policy,
            rng: Rng::new(seed),
            received: vec![],
            events: vec![],
            write_calls: 0,
            flush_calls: 0,
            vectored_calls: 0,
            consecutive_intr: 0,
        })))
    }
    pub fn n_events(&self) -> usize {
        self.0.borrow().events.len()
    }
}

impl Write for Sink {
    fn write(&mut self, buf: &[u8]) -> io::Result<usize> {
        let mut g = self.0.borrow_mut();
        let s = &mut *g;
        s.write_calls += 1;
        let c = s.write_calls;
        if s.policy.panic_at == Some(c) {
            s.events.push(SinkEv::Panic);
            drop(g);
            panic!("sink panics on purpose");
        }
        if s.policy.fail_at.contains(&c) {
            s.events.push(SinkEv::WriteFail {
                offered_len: buf.len(),
            });
            // any kind but Interrupted, varied per call
            let kind = crate::src::FAIL_KINDS[(c as usize + buf.len()) % crate::src::FAIL_KINDS.len()];
            return Err(io::Error::new(kind, "injected sink failure"));
        }
        if s.policy.zero_at.contains(&c) && !buf.is_empty() {
            s.events.push(SinkEv::WriteZero {
                offered_len: buf.len(),
            });
            return Ok(0);
        }
        if s.policy.intr > 0 && s.consecutive_intr < 3 && s.rng.below(16) < s.policy.intr {
            s.consecutive_intr += 1;
            s.events.push(SinkEv::WriteIntr {
                offered_len: buf.len(),
            });
            return Err(io::Error::new(io::ErrorKind::Interrupted, "injected EINTR"));
        }
        s.consecutive_intr = 0;
        let mut n = buf.len();
        if n > 1 && s.policy.short > 0 && s.rng.below(16) < s.policy.short {
            n = 1 + s.rng.usize(n - 1);
            if s.rng.chance(1, 2) {
                n = n.min(1 + s.rng.usize(9));
            }
        }
        s.received.extend_from_slice(&buf[..n]);
        s.events.push(SinkEv::Write {
            offered: buf.to_vec(),
            accepted: n,
        });
        Ok(n)
    }
    /// writev semantics: one call may take bytes from several slices and may stop anywhere (the
    /// default implementation would only ever look at the first non-empty slice)
    fn write_vectored(&mut self, bufs: &[io::IoSlice<'_>]) -> io::Result<usize> {
        let mut joined = Vec::with_capacity(bufs.iter().map(|b| b.len()).sum());
        for b in bufs {
            joined.extend_from_slice(b);
        }
        self.0.borrow_mut().vectored_calls += 1;
        self.write(&joined)
    }
    fn flush(&mut self) -> io::Result<()> {
        let mut s = self.0.borrow_mut();
        s.flush_calls += 1;
        s.events.push(SinkEv::Flush);
        Ok(())
    }
}
