//! Instrumented byte sources (`Read`) driven by a schedule policy, with a shared call log.

use crate::prng::Rng;
use std::cell::RefCell;
use std::io::{self, Read};
use std::rc::Rc;

#[derive(Clone, Debug)]
pub enum Policy {
    /// everything the buffer can take
    OneShot,
    /// at most k bytes per read
    Fixed(usize),
    /// first read delivers exactly `i` bytes (if i > 0), afterwards everything
    SplitAt(usize),
    /// random sizes, geometric with mean `mean_x10`/10; `interrupts`: inject Interrupted errors
    Random { mean_x10: u64, interrupts: bool },
    /// never deliver past the next cut offset (absolute stream offsets, ascending)
    Cuts(Rc<Vec<usize>>),
}

impl Policy {
    pub fn describe(&self) -> String {
        match self {
            Policy::OneShot => "oneshot".into(),
            Policy::Fixed(k) => format!("fixed{}", k),
            Policy::SplitAt(i) => format!("split@{}", i),
            Policy::Random {
                mean_x10,
                interrupts,
            } => format!(
                "random(mean={:.1}{})",
                *mean_x10 as f64 / 10.0,
                if *interrupts { ",intr" } else { "" }
            ),
            Policy::Cuts(c) => format!("cuts({})", c.len()),
        }
    }
}

#[derive(Clone, Copy, Debug, PartialEq, Eq)]
pub enum End {
    /// clean end of input after the data
    Eof,
    /// a non-Interrupted error after the data (every further call errors as well)
    Fail,
}

#[derive(Debug, Default, Clone)]
pub struct SrcLog {
    pub calls: u64,
    pub ok_reads: u64,
    pub interrupts: u64,
    pub delivered: usize,
    pub eof_returned: u64,
    pub err_returned: u64,
    /// calls made after the source already returned Ok(0) or a terminal error
    pub calls_after_end: u64,
    pub max_offered: usize,
    pub min_offered: usize,
    pub zero_len_offers: u64,
    /// cumulative delivered count after each successful read (only if `record_boundaries`)
    pub boundaries: Vec<usize>,
    /// (offered, result) of each call: result >= 0 bytes, -1 interrupted, -2 error, -3 lying read (if `record_calls`)
    pub call_log: Vec<(usize, i64)>,
    /// (stream offset, bytes written) of reads whose return value lied
    pub lies: Vec<(usize, usize)>,
}

pub struct SrcState {
    pub data: Rc<Vec<u8>>,
    /// only data[..limit] is ever delivered
    pub limit: usize,
    pub end: End,
    pub policy: Policy,
    pub rng: Rng,
    pub log: SrcLog,
    pub record_boundaries: bool,
    pub record_calls: bool,
    consecutive_intr: u32,
    first_done: bool,
    cut_idx: usize,
    /// C14: return `lie` more bytes than were actually written / than the buffer can hold
    pub lie_at_call: Option<(u64, usize)>,
    /// C14: panic at this call number
    pub panic_at_call: Option<u64>,
    /// selects the ErrorKind of the injected failure
    pub fail_salt: u64,
    /// (call number, length): that many consecutive Interrupted results starting at that read call
    pub storm: Option<(u64, u32)>,
    storm_left: u32,
    /// what calls after the first error see: 0 the error again (every time), 1 a plain end of input,
    /// 2 the rest of the data
    pub after_failure: u8,
}

pub const FAIL_KINDS: [io::ErrorKind; 19] = [
    io::ErrorKind::Other,
    io::ErrorKind::BrokenPipe,
    io::ErrorKind::UnexpectedEof,
    io::ErrorKind::WouldBlock,
    io::ErrorKind::TimedOut,
    io::ErrorKind::ConnectionReset,
    io::ErrorKind::ConnectionAborted,
    io::ErrorKind::ConnectionRefused,
    io::ErrorKind::NotConnected,
    io::ErrorKind::InvalidData,
    io::ErrorKind::InvalidInput,
    io::ErrorKind::PermissionDenied,
    io::ErrorKind::NotFound,
    io::ErrorKind::WriteZero,
    io::ErrorKind::OutOfMemory,
    io::ErrorKind::Unsupported,
    io::ErrorKind::AlreadyExists,
    io::ErrorKind::AddrInUse,
    io::ErrorKind::AddrNotAvailable,
];

#[derive(Clone)]
pub struct Src(pub Rc<RefCell<SrcState>>);

impl Src {
    pub fn new(data: Rc<Vec<u8>>, policy: Policy, seed: u64) -> Src {
        let limit = data.len();
        Src(Rc::new(RefCell::new(SrcState {
            data,
            limit,
            end: End::Eof,
            policy,
            rng: Rng::new(seed),
            log: SrcLog {
                min_offered: usize::MAX,
                ..SrcLog::default()
            },
            record_boundaries: false,
            record_calls: false,
            consecutive_intr: 0,
            first_done: false,
            cut_idx: 0,
            lie_at_call: None,
            panic_at_call: None,
            fail_salt: seed,
            storm: None,
            storm_left: 0,
            after_failure: 0,
        })))
    }
    pub fn from_bytes(data: &[u8], policy: Policy, seed: u64) -> Src {
        Src::new(Rc::new(data.to_vec()), policy, seed)
    }
    /// deliver only the first k bytes, then fail forever
    pub fn failing_at(self, k: usize) -> Src {
        {
            let mut s = self.0.borrow_mut();
            s.limit = k.min(s.data.len());
            s.end = End::Fail;
        }
        self
    }
    /// like failing_at, but the error is returned only once: afterwards the source reports a plain end
    /// (mode 1) or goes on delivering the rest of the data (mode 2)
    pub fn failing_once_at(self, k: usize, mode: u8) -> Src {
        let s = self.failing_at(k);
        s.0.borrow_mut().after_failure = mode;
        s
    }
    pub fn truncated_at(self, k: usize) -> Src {
        {
            let mut s = self.0.borrow_mut();
            s.limit = k.min(s.data.len());
            s.end = End::Eof;
        }
        self
    }
    /// `n` consecutive Interrupted results starting at read call number `at` (1-based)
    pub fn with_storm(self, at: u64, n: u32) -> Src {
        self.0.borrow_mut().storm = Some((at, n));
        self
    }
    pub fn with_boundaries(self) -> Src {
        self.0.borrow_mut().record_boundaries = true;
        self
    }
    pub fn with_calls(self) -> Src {
        self.0.borrow_mut().record_calls = true;
        self
    }
    pub fn delivered(&self) -> usize {
        self.0.borrow().log.delivered
    }
    pub fn log(&self) -> SrcLog {
        self.0.borrow().log.clone()
    }
    pub fn ended(&self) -> bool {
        let s = self.0.borrow();
        s.log.eof_returned > 0 || s.log.err_returned > 0
    }
}

impl Read for Src {
    fn read(&mut self, buf: &mut [u8]) -> io::Result<usize> {
        let mut guard = self.0.borrow_mut();
        let s = &mut *guard;
        s.log.calls += 1;
        s.log.max_offered = s.log.max_offered.max(buf.len());
        s.log.min_offered = s.log.min_offered.min(buf.len());
        if buf.is_empty() {
            s.log.zero_len_offers += 1;
        }
        if s.log.eof_returned > 0 || s.log.err_returned > 0 {
            s.log.calls_after_end += 1;
        }
        if let Some(c) = s.panic_at_call {
            if c == s.log.calls {
                drop(guard);
                panic!("source panics on purpose");
            }
        }
        // a storm of consecutive Interrupted results (a signal-heavy process): starts at a given call
        if let Some((at, n)) = s.storm {
            if s.log.calls == at {
                s.storm_left = n;
                s.storm = None;
            }
        }
        if s.storm_left > 0 {
            s.storm_left -= 1;
            s.log.interrupts += 1;
            if s.record_calls {
                s.log.call_log.push((buf.len(), -1));
            }
            return Err(io::Error::new(io::ErrorKind::Interrupted, "injected EINTR (storm)"));
        }
        let mut remaining = s.limit - s.log.delivered;
        if remaining == 0 && matches!(s.end, End::Fail) && s.log.err_returned >= 1 && s.after_failure == 2 {
            // the failure was transient (a reset connection, a timeout): the source goes on delivering
            s.limit = s.data.len();
            s.end = End::Eof;
            remaining = s.limit - s.log.delivered;
        }
        if remaining == 0 {
            if matches!(s.end, End::Fail) && s.log.err_returned >= 1 && s.after_failure == 1 {
                // the failure is not repeated: every later call reports a plain end of input
                s.log.eof_returned += 1;
                if s.record_calls {
                    s.log.call_log.push((buf.len(), 0));
                }
                return Ok(0);
            }
            return match s.end {
                End::Eof => {
                    s.log.eof_returned += 1;
                    if s.record_calls {
                        s.log.call_log.push((buf.len(), 0));
                    }
                    Ok(0)
                }
                End::Fail => {
                    s.log.err_returned += 1;
                    if s.record_calls {
                        s.log.call_log.push((buf.len(), -2));
                    }
                    // any kind but Interrupted (which means "try again"); varied per source
                    let kind = FAIL_KINDS[((s.limit as u64).wrapping_add(s.fail_salt) % FAIL_KINDS.len() as u64) as usize];
                    Err(io::Error::new(kind, "injected source failure"))
                }
            };
        }
        let want = match &s.policy {
            Policy::OneShot => remaining,
            Policy::Fixed(k) => *k,
            Policy::SplitAt(i) => {
                if !s.first_done && *i > 0 {
                    *i
                } else {
                    remaining
                }
            }
            Policy::Random {
                mean_x10,
                interrupts,
            } => {
                if *interrupts && s.consecutive_intr < 3 && s.rng.chance(1, 4) {
                    s.consecutive_intr += 1;
                    s.log.interrupts += 1;
                    if s.record_calls {
                        s.log.call_log.push((buf.len(), -1));
                    }
                    return Err(io::Error::new(io::ErrorKind::Interrupted, "injected EINTR"));
                }
                s.consecutive_intr = 0;
                let m = *mean_x10;
                s.rng.geometric(m)
            }
            Policy::Cuts(cuts) => {
                while s.cut_idx < cuts.len() && cuts[s.cut_idx] <= s.log.delivered {
                    s.cut_idx += 1;
                }
                if s.cut_idx < cuts.len() {
                    cuts[s.cut_idx] - s.log.delivered
                } else {
                    remaining
                }
            }
        };
        s.first_done = true;
        let n = want.max(1).min(remaining).min(buf.len());
        let off = s.log.delivered;
        buf[..n].copy_from_slice(&s.data[off..off + n]);
        s.log.delivered += n;
        if n > 0 {
            s.log.ok_reads += 1;
        }
        if s.record_boundaries {
            s.log.boundaries.push(s.log.delivered);
        }
        if s.record_calls {
            s.log.call_log.push((buf.len(), n as i64));
        }
        if let Some((c, lie)) = s.lie_at_call {
            if c == s.log.calls {
                // claims more than the slice it was given; the n bytes really written are
                // recorded as a rejected delivery
                s.log.lies.push((off, n));
                if s.record_calls {
                    if let Some(last) = s.log.call_log.last_mut() {
                        last.1 = -3;
                    }
                }
                return Ok(buf.len() + lie);
            }
        }
        Ok(n)
    }
}

/// Position-identifying, zero-free data: byte i is a mixing function of i (never 0).
pub fn ident_byte(i: usize) -> u8 {
    let x = (i as u64).wrapping_mul(0x9e3779b97f4a7c15);
    let b = ((x >> 56) ^ (x >> 23) ^ (i as u64)) as u8;
    if b == 0 {
        0xa5
    } else {
        b
    }
}

pub fn ident_data(n: usize) -> Vec<u8> {
    (0..n).map(ident_byte).collect()
}

/// A source that generates its data on the fly from a closure (for C10); nothing is materialised.
pub struct GenSrc<F: FnMut(&mut Vec<u8>) -> bool> {
    pub refill: F,
    pub pending: Vec<u8>,
    pub pos: usize,
    pub read_size: usize,
    pub delivered: u64,
    pub done: bool,
    pub calls: Rc<std::cell::Cell<u64>>,
}

impl<F: FnMut(&mut Vec<u8>) -> bool> Read for GenSrc<F> {
    fn read(&mut self, buf: &mut [u8]) -> io::Result<usize> {
        self.calls.set(self.calls.get() + 1);
        if self.pos == self.pending.len() {
            if self.done {
                return Ok(0);
            }
            self.pending.clear();
            self.pos = 0;
            if !(self.refill)(&mut self.pending) {
                self.done = true;
            }
            if self.pending.is_empty() {
                self.done = true;
                return Ok(0);
            }
        }
        let n = (self.pending.len() - self.pos)
            .min(buf.len())
            .min(self.read_size.max(1));
        buf[..n].copy_from_slice(&self.pending[self.pos..self.pos + n]);
        self.pos += n;
        self.delivered += n as u64;
        Ok(n)
    }
}
