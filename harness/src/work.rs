//! Worker framework: argument parsing, per-case PRNG, journalling, panic capture, CPU-time limit,
//! result lines.
//!
//! Protocol on stdout (one JSON document per line, prefixed):
//!   `V {...}`  a violation (emitted immediately, flushed)
//!   `K {...}`  a case that could not be judged because the code under test panicked (non-C05 monitors)
//!   `S {...}`  the summary of this worker (counters, samples), emitted once at the end
//! Journal: the index of the case about to run is written before every case, either into a
//! fixed-size record at offset 0 of `--journal <file>` or as `J <idx>` lines on stderr.

use crate::json::J;
use crate::prng::{fnv, Rng};
use std::cell::RefCell;
use std::collections::{BTreeMap, HashSet};
use std::io::Write;
use std::panic::{catch_unwind, AssertUnwindSafe};

extern "C" {
    fn write(fd: i32, buf: *const u8, count: usize) -> isize;
}

/// raw write(2) without allocation
pub unsafe fn sys_write(fd: i32, buf: *const u8, n: usize) {
    let _ = write(fd, buf, n);
}

#[cfg(not(miri))]
mod timer {
    #[repr(C)]
    struct Timeval {
        sec: i64,
        usec: i64,
    }
    #[repr(C)]
    struct Itimerval {
        interval: Timeval,
        value: Timeval,
    }
    extern "C" {
        fn setitimer(which: i32, new: *const Itimerval, old: *mut Itimerval) -> i32;
    }
    /// ITIMER_VIRTUAL: counts user CPU time of the process, SIGVTALRM (default action: terminate).
    pub fn arm_cpu_limit(secs: u64) {
        let v = Itimerval {
            interval: Timeval { sec: 0, usec: 0 },
            value: Timeval {
                sec: secs as i64,
                usec: 0,
            },
        };
        unsafe {
            setitimer(1, &v, std::ptr::null_mut());
        }
    }
}
#[cfg(miri)]
mod timer {
    pub fn arm_cpu_limit(_secs: u64) {}
}
pub use timer::arm_cpu_limit;

#[derive(Clone, Debug)]
pub struct Args {
    pub cmd: String,
    pub seed: u64,
    pub shard: u64,
    pub nshards: u64,
    pub count: u64,
    pub from: u64,
    pub only: Option<u64>,
    pub journal: Option<String>,
    pub cpu_limit: u64,
    pub params: BTreeMap<String, String>,
}

impl Args {
    pub fn parse(argv: &[String]) -> Args {
        let mut a = Args {
            cmd: argv.first().cloned().unwrap_or_default(),
            seed: 1,
            shard: 0,
            nshards: 1,
            count: 0,
            from: 0,
            only: None,
            journal: None,
            cpu_limit: 0,
            params: BTreeMap::new(),
        };
        let mut i = 1;
        while i < argv.len() {
            let k = argv[i].as_str();
            let v = argv.get(i + 1).cloned().unwrap_or_default();
            match k {
                "--seed" => a.seed = v.parse().expect("seed"),
                "--shard" => a.shard = v.parse().expect("shard"),
                "--nshards" => a.nshards = v.parse().expect("nshards"),
                "--count" => a.count = v.parse().expect("count"),
                "--from" => a.from = v.parse().expect("from"),
                "--only" => a.only = Some(v.parse().expect("only")),
                "--journal" => a.journal = Some(v),
                "--cpu-limit" => a.cpu_limit = v.parse().expect("cpu-limit"),
                _ => {
                    if let Some((pk, pv)) = k.split_once('=') {
                        a.params.insert(pk.to_string(), pv.to_string());
                        i += 1;
                        continue;
                    } else {
                        panic!("unknown argument {k}");
                    }
                }
            }
            i += 2;
        }
        a
    }
    pub fn p_u64(&self, k: &str, default: u64) -> u64 {
        self.params
            .get(k)
            .map(|v| v.parse().expect("numeric param"))
            .unwrap_or(default)
    }
    pub fn p_str(&self, k: &str, default: &str) -> String {
        self.params
            .get(k)
            .cloned()
            .unwrap_or_else(|| default.to_string())
    }
    pub fn p_bool(&self, k: &str) -> bool {
        self.p_u64(k, 0) != 0
    }
}

thread_local! {
    static LAST_PANIC: RefCell<Option<(String, String)>> = const { RefCell::new(None) };
    static IN_SUT: std::cell::Cell<bool> = const { std::cell::Cell::new(false) };
}

/// Marks the dynamic extent in which the code under test runs. A panic that escapes `f` leaves
/// the flag set, which is how the outer guard attributes it to the code under test.
#[inline]
pub fn sut<R>(f: impl FnOnce() -> R) -> R {
    IN_SUT.with(|c| c.set(true));
    let r = f();
    IN_SUT.with(|c| c.set(false));
    r
}

/// Like `sut` but catches the panic: Err((message, location)).
pub fn sut_caught<R>(f: impl FnOnce() -> R) -> Result<R, (String, String)> {
    let r = guarded(|| sut(f));
    IN_SUT.with(|c| c.set(false));
    r
}

pub fn install_panic_hook() {
    std::panic::set_hook(Box::new(|info| {
        let loc = info
            .location()
            .map(|l| format!("{}:{}:{}", l.file(), l.line(), l.column()))
            .unwrap_or_default();
        let msg = if let Some(s) = info.payload().downcast_ref::<&str>() {
            s.to_string()
        } else if let Some(s) = info.payload().downcast_ref::<String>() {
            s.clone()
        } else {
            "<non-string panic payload>".to_string()
        };
        LAST_PANIC.with(|p| *p.borrow_mut() = Some((msg, loc)));
    }));
}

pub fn take_panic() -> Option<(String, String)> {
    LAST_PANIC.with(|p| p.borrow_mut().take())
}

/// Is this panic location inside the code under test (as opposed to the harness)?
pub fn loc_is_under_test(loc: &str) -> bool {
    // harness sources are "src/..." relative paths; path dependencies show absolute paths that
    // contain the crate directory names; std / deps show /rustc/ or registry paths.
    let in_sut = IN_SUT.with(|c| c.replace(false));
    in_sut && !loc.starts_with("src/")
}

/// Runs `f`, capturing a panic as (message, location).
pub fn guarded<R>(f: impl FnOnce() -> R) -> Result<R, (String, String)> {
    let _ = take_panic();
    match catch_unwind(AssertUnwindSafe(f)) {
        Ok(r) => Ok(r),
        Err(_) => Err(take_panic().unwrap_or_else(|| ("<unknown panic>".into(), String::new()))),
    }
}

pub struct Report {
    pub args: Args,
    pub counters: BTreeMap<String, u64>,
    pub maxima: BTreeMap<String, u64>,
    pub hashes: HashSet<u64>,
    pub hash_cap: usize,
    pub hashes_dropped: u64,
    pub samples: Vec<J>,
    pub sample_cap: usize,
    pub violations: u64,
    pub violation_cap: u64,
    pub cur: u64,
    pub extra: BTreeMap<String, J>,
    pub pairs: HashSet<u64>,
}

impl Report {
    pub fn new(args: &Args) -> Report {
        Report {
            args: args.clone(),
            counters: BTreeMap::new(),
            maxima: BTreeMap::new(),
            hashes: HashSet::new(),
            hash_cap: 1 << 21,
            hashes_dropped: 0,
            samples: vec![],
            sample_cap: 2,
            violations: 0,
            violation_cap: 20,
            cur: 0,
            extra: BTreeMap::new(),
            pairs: HashSet::new(),
        }
    }
    pub fn extra_pairs(&mut self, key: u64) {
        self.pairs.insert(key);
    }
    #[inline]
    pub fn count(&mut self, k: &str, n: u64) {
        if let Some(c) = self.counters.get_mut(k) {
            *c += n;
        } else {
            self.counters.insert(k.to_string(), n);
        }
    }
    #[inline]
    pub fn inc(&mut self, k: &str) {
        self.count(k, 1)
    }
    pub fn max(&mut self, k: &str, v: u64) {
        let e = self.maxima.entry(k.to_string()).or_insert(0);
        if v > *e {
            *e = v;
        }
    }
    /// record one distinct non-trivial case
    #[inline]
    pub fn nontrivial(&mut self, hash: u64) {
        if self.hashes.len() < self.hash_cap {
            self.hashes.insert(hash);
        } else {
            self.hashes_dropped += 1;
        }
    }
    pub fn sample(&mut self, f: impl FnOnce() -> J) {
        if self.samples.len() < self.sample_cap {
            self.samples.push(f());
        }
    }
    pub fn want_sample(&self) -> bool {
        self.samples.len() < self.sample_cap
    }
    /// Report a violation for the current case. `kind` is a short stable signature component.
    pub fn violation(&mut self, kind: &str, detail: J) {
        self.violations += 1;
        self.count("violations_total", 1);
        if self.violations > self.violation_cap {
            return;
        }
        let j = J::obj()
            .set("cmd", J::s(self.args.cmd.clone()))
            .set("seed", J::U(self.args.seed))
            .set("index", J::U(self.cur))
            .set("kind", J::s(kind))
            .set(
                "params",
                J::O(self
                    .args
                    .params
                    .iter()
                    .map(|(k, v)| (k.clone(), J::s(v.clone())))
                    .collect()),
            )
            .set("detail", detail);
        emit("V", &j);
    }
    pub fn skipped(&mut self, msg: &str, loc: &str) {
        self.count("skipped_panics", 1);
        if self.counters["skipped_panics"] <= 5 {
            let j = J::obj()
                .set("cmd", J::s(self.args.cmd.clone()))
                .set("index", J::U(self.cur))
                .set("panic", J::s(msg))
                .set("location", J::s(loc));
            emit("K", &j);
        }
    }
}

pub fn emit(tag: &str, j: &J) {
    let mut s = String::new();
    s.push_str(tag);
    s.push(' ');
    j.write(&mut s);
    s.push('\n');
    let out = std::io::stdout();
    let mut l = out.lock();
    let _ = l.write_all(s.as_bytes());
    let _ = l.flush();
}

pub struct Journal {
    file: Option<std::fs::File>,
}

impl Journal {
    pub fn open(path: &Option<String>) -> Journal {
        let file = match path {
            Some(p) if p != "-" => Some(
                std::fs::OpenOptions::new()
                    .write(true)
                    .create(true)
                    .truncate(false)
                    .open(p)
                    .expect("journal"),
            ),
            _ => None,
        };
        Journal { file }
    }
    #[inline]
    pub fn mark(&self, idx: u64) {
        let mut buf = [b' '; 24];
        buf[0] = b'J';
        let mut v = idx;
        let mut i = 22;
        loop {
            buf[i] = b'0' + (v % 10) as u8;
            v /= 10;
            if v == 0 {
                break;
            }
            i -= 1;
        }
        buf[23] = b'\n';
        match &self.file {
            Some(f) => {
                use std::os::unix::fs::FileExt;
                let _ = f.write_at(&buf, 0);
            }
            None => unsafe { sys_write(2, buf.as_ptr(), buf.len()) },
        }
    }
}

pub trait Monitor {
    /// Run one case. `rng` is deterministic in (seed, cmd, idx).
    fn case(&mut self, idx: u64, rng: &mut Rng, rep: &mut Report);
    /// Called once after the last case of this worker.
    fn finish(&mut self, _rep: &mut Report) {}
    /// If true, a panic inside the code under test is this monitor's violation; if false the case
    /// is skipped and counted (the driver then ends inconclusive unless something else fails).
    fn panic_is_violation(&self) -> bool {
        false
    }
}

pub fn run(args: &Args, mon: &mut dyn Monitor) {
    install_panic_hook();
    // A runaway in the code under test must die by an attributed abort instead of exhausting the
    // machine: no single request above 1 GiB, no more than `live_ceiling_mb` (default 3 GiB) live.
    crate::alloc::set_ceiling(1 << 30);
    crate::alloc::set_live_ceiling((args.p_u64("live_ceiling_mb", 3072) as usize) << 20);
    let journal = Journal::open(&args.journal);
    let mut rep = Report::new(args);
    let stream = fnv(args.cmd.as_bytes());
    let t0 = std::time::Instant::now();
    let mut idx = match args.only {
        Some(i) => i,
        None => {
            // first index >= from in this shard
            let mut i = args.from;
            while i % args.nshards != args.shard {
                i += 1;
            }
            i
        }
    };
    let end = match args.only {
        Some(i) => i + 1,
        None => args.count,
    };
    while idx < end {
        journal.mark(idx);
        if args.cpu_limit > 0 {
            arm_cpu_limit(args.cpu_limit);
        }
        rep.cur = idx;
        rep.inc("cases");
        let mut rng = Rng::for_case(args.seed, stream, idx);
        let r = guarded(|| mon.case(idx, &mut rng, &mut rep));
        if let Err((msg, loc)) = r {
            if !loc_is_under_test(&loc) {
                // a harness bug: never a verdict
                let j = J::obj()
                    .set("cmd", J::s(args.cmd.clone()))
                    .set("index", J::U(idx))
                    .set("harness_panic", J::s(msg))
                    .set("location", J::s(loc));
                emit("H", &j);
                rep.inc("harness_errors");
            } else if mon.panic_is_violation() {
                rep.violation(
                    "panic",
                    J::obj().set("panic", J::s(msg)).set("location", J::s(loc)),
                );
            } else {
                rep.skipped(&msg, &loc);
            }
        }
        if args.only.is_some() {
            break;
        }
        idx += args.nshards;
    }
    if args.cpu_limit > 0 {
        arm_cpu_limit(0);
    }
    let g = guarded(|| mon.finish(&mut rep));
    if let Err((msg, loc)) = g {
        emit(
            "H",
            &J::obj()
                .set("harness_panic", J::s(msg))
                .set("location", J::s(loc)),
        );
        rep.inc("harness_errors");
    }
    let mut s = J::obj()
        .set("shard", J::U(args.shard))
        .set("from", J::U(args.from))
        .set("wall_s", J::F(t0.elapsed().as_secs_f64()))
        .set(
            "counters",
            J::O(rep
                .counters
                .iter()
                .map(|(k, v)| (k.clone(), J::U(*v)))
                .collect()),
        )
        .set(
            "maxima",
            J::O(rep
                .maxima
                .iter()
                .map(|(k, v)| (k.clone(), J::U(*v)))
                .collect()),
        )
        .set("distinct", J::U(rep.hashes.len() as u64))
        .set("hashes_dropped", J::U(rep.hashes_dropped))
        .set("samples", J::A(rep.samples.clone()))
        .set("keyset", {
            let mut v: Vec<u64> = rep.pairs.iter().copied().collect();
            v.sort_unstable();
            v.truncate(20000);
            J::A(v.into_iter().map(J::U).collect())
        })
        .set("extra", J::O(rep.extra.clone()));
    // hashes for cross-shard distinct counting
    if let Some(p) = args.params.get("hashfile") {
        let mut v: Vec<u64> = rep.hashes.iter().copied().collect();
        v.sort_unstable();
        let mut bytes = Vec::with_capacity(v.len() * 8);
        for h in v {
            bytes.extend_from_slice(&h.to_le_bytes());
        }
        // append: a restarted worker adds to the same file
        if let Ok(mut f) = std::fs::OpenOptions::new().create(true).append(true).open(p) {
            let _ = f.write_all(&bytes);
        }
        s.put("hashfile", J::s(p.clone()));
    }
    emit("S", &s);
}

/// `mon distinct f1 f2 ...` : number of distinct u64 values in the union of the files
pub fn distinct_union(files: &[String]) -> u64 {
    let mut all: Vec<u64> = vec![];
    for f in files {
        if let Ok(b) = std::fs::read(f) {
            for c in b.chunks_exact(8) {
                all.push(u64::from_le_bytes(c.try_into().unwrap()));
            }
        }
    }
    all.sort_unstable();
    all.dedup();
    all.len() as u64
}
