"""Per-property run plans: which monitors run in which build flavour with which budget.

A plan is a dict: level, rule, jobs (list of check.Job), floors (counter -> minimum, a run below a
floor is inconclusive), exhaustive (optional), assumptions.
Budgets scale with the tier only through `count` (and a few explicit size parameters), and the
mapping index -> case does not depend on the budget, so a replay file stays valid across tiers.
"""
from driver import Job

# CPU seconds allowed per case (ITIMER_VIRTUAL inside the worker), by monitor command
CPU_LIMIT = {"c05": 20, "c12": 60}

COMMON_ASSUME = [
    "x86_64-linux only; rustc/std, the harness crate and the sanitizers are trusted",
    "verdict covers exactly the executions produced by this run (seeded, replayable); nothing is claimed about inputs, schedules or histories that were not generated",
]


def q(tier, quick, thorough):
    return quick if tier == "quick" else thorough


def plan(prop, tier, seed):
    f = globals().get("plan_" + prop)
    if not f:
        raise SystemExit("no plan for property " + prop)
    p = f(tier, seed)
    p.setdefault("assumptions", [])
    p["assumptions"] = COMMON_ASSUME + p["assumptions"]
    return p


def plan_C15(tier, seed):
    n = q(tier, 7, 9)  # token strings up to length n-1... case k>0 enumerates all strings of length k-1
    jobs = [
        Job("table-chk", "chk", "c15", n + 1, {"max_len": n}, nshards=min(16, n + 1), crash_is_violation=True),
        Job("table-rel", "rel", "c15", n + 1, {"max_len": n}, nshards=min(16, n + 1), crash_is_violation=True),
    ]
    return {
        "level": "exploration",
        "exhaustive": True,
        "rule": "case 0 enumerates every cell of (combinator x receiver case {Fallthrough,Res(Ok),Res(Err)} x closure "
                "return case [x mutate]) for or_parse, or_always_parse, or_give_up, optional, matches, and_then, and_also, "
                "and_do, map, map_err, err_into, From<Result> and ResultExt::{err_into,and_also,and_do}; each cell compares "
                "returned value (identity-tagged), closure invocation count and received argument with a table written from "
                "the documentation. Cases k>=1 enumerate all token strings of length k-1 over {a,b,c,d,e,z} through a composed "
                "grammar and compare result and closure-invocation trace with a direct reference. Distinct = distinct cell "
                "names + distinct token strings of length >= 2; every cell is non-trivial (each is a different row of the "
                "specification). Run in the chk (debug assertions) and rel builds.",
        "jobs": jobs,
        "primary_jobs": ["table-chk"],
        "eval_counters": ["cells", "grammar_strings"],
        "floors": {"cells": 2 * 73, "distinct_nontrivial": 73},
        "assumptions": ["the specification table in harness/src/c15.rs is written from the rustdoc of flussab::Parsed/ResultExt"],
    }
