"""Per-property run plans: which monitors run in which build flavour with which budget.

A plan is a dict: level, rule, jobs (list of check.Job), floors (counter -> minimum, a run below a
floor is inconclusive), exhaustive (optional), assumptions.
Budgets scale with the tier only through `count` (and a few explicit size parameters), and the
mapping index -> case does not depend on the budget, so a replay file stays valid across tiers.
"""
from driver import Job

# CPU seconds allowed per case (ITIMER_VIRTUAL inside the worker), by monitor command
CPU_LIMIT = {"c05": 20, "c12": 20}

COMMON_ASSUME = [
    "x86_64-linux only; rustc/std, the harness crate and the sanitizers are trusted",
    "verdict covers exactly the executions produced by this run (seeded, replayable); nothing is claimed about inputs, schedules or histories that were not generated",
]


def q(tier, quick, thorough):
    return quick if tier == "quick" else thorough


def plan(prop, tier, seed):
    f = globals().get("plan_" + prop)
    if not f:
        raise SystemExit("no plan for property " + prop)
    p = f(tier, seed)
    p.setdefault("assumptions", [])
    p["assumptions"] = COMMON_ASSUME + p["assumptions"]
    return p


def plan_C15(tier, seed):
    n = q(tier, 7, 9)  # token strings up to length n-1... case k>0 enumerates all strings of length k-1
    jobs = [
        Job("table-chk", "chk", "c15", n + 1, {"max_len": n}, nshards=min(16, n + 1), crash_is_violation=True),
        Job("table-rel", "rel", "c15", n + 1, {"max_len": n}, nshards=min(16, n + 1), crash_is_violation=True),
        # the cell table (all six type shapes, incl. the ones with drop glue) under Miri: a combinator that
        # duplicates, forgets or reads a moved-out value is undefined behaviour / a leak there
        Job("table-miri", "miri-san", "c15", q(tier, 1, 4), {"max_len": 3, "subset": q(tier, 1, 0)}, nshards=q(tier, 1, 4), crash_is_violation=True,
            wall_limit=1800),
    ]
    return {
        "level": "exploration",
        "exhaustive": True,
        "rule": "case 0 enumerates every cell of (combinator x receiver case {Fallthrough,Res(Ok),Res(Err)} x closure "
                "return case [x mutate]) for or_parse, or_always_parse, or_give_up, optional, matches, and_then, and_also, "
                "and_do, map, map_err, err_into, From<Result> and ResultExt::{err_into,and_also,and_do}, plus the closure-taking "
                "combinators once more with a zero-sized value type () and once more with callables that capture 320 bytes by "
                "value; six shapes of the table are evaluated a second time from a destructor while the thread is unwinding "
                "from a panic (std::thread::panicking() is true there), and - not under Miri - for the 300th time on the same "
                "thread (combinators keep no state); or_give_up additionally with a constructor that captures nothing (zero-sized closure, invocations counted in a thread-local); six more cells per shape evaluate or_parse and and_then INSIDE a "
                "continuation of and_then / and_also after a nested continuation failed and the enclosing code recovered; the whole table is instantiated for several shapes of the "
                "value/error types - fourteen - (4-byte; odd-sized (u32,(u8,u16)); 136-byte and 328-byte arrays, i.e. Parsed larger than 128 "
                "bytes; String and Box payloads with drop glue; u128 and #[repr(align(64))] payloads, i.e. over-aligned; six more where the types that map / "
                "and_then / err_into / map_err convert TO differ in size from the ones they convert FROM: widening 4->16, 16->32, "
                "16->136 bytes, narrowing 136->4, plain -> String, String -> plain, i.e. from drop glue to none) - generic code can differ between instantiations only "
                "through such type intrinsics; payload integrity is part of the compared rendering; each cell compares "
                "returned value (identity-tagged), closure invocation count and received argument with a table written from "
                "the documentation. Cases k>=1 enumerate all token strings of length k-1 over {a,b,c,d,e,z} through a composed "
                "grammar and compare result and closure-invocation trace with a direct reference. Distinct = distinct cell "
                "names + distinct token strings of length >= 2; every cell is non-trivial (each is a different row of the "
                "specification). Run in the chk (debug assertions) and rel builds, and the cell table also under Miri (quick "
                "tier: the seven shapes with drop glue, large moves or over-alignment; thorough tier: all).",
        "jobs": jobs,
        "primary_jobs": ["table-chk"],
        "eval_counters": ["cells", "grammar_strings"],
        "floors": {"cells": 2 * (14 + 7 + 7) * 137 + 2 * 7 * 137, "shapes": 2 * 14 + 7, "cells_evaluated_while_unwinding": 3 * 7 * 137,
                   "table_repetitions_on_one_thread": 2 * 300,
                   "distinct_nontrivial": 14 * 137},
        "assumptions": ["the specification table in harness/src/c15.rs is written from the rustdoc of flussab::Parsed/ResultExt"],
    }


def plan_C16(tier, seed):
    L = q(tier, 7, 9)
    total = sum(6 ** l for l in range(L + 1))
    ns = q(tier, 4000, 200000)
    jobs = [
        Job("enum-chk", "chk", "c16", total, {"mode": "enum", "max_len": L}, crash_is_violation=True),
        Job("enum-rel", "rel", "c16", total if tier == "thorough" else sum(6 ** l for l in range(6 + 1)),
            {"mode": "enum", "max_len": L}, crash_is_violation=True),
        Job("words-chk", "chk", "c16", 6 ** 8, {"mode": "words"}, crash_is_violation=True),
        Job("words-rel", "rel", "c16", 6 ** 8, {"mode": "words"}, crash_is_violation=True),
        Job("sampled-chk", "chk", "c16", ns, {"mode": "sampled"}, crash_is_violation=True),
        Job("sampled-rel", "rel", "c16", ns, {"mode": "sampled"}, crash_is_violation=True),
    ]
    return {
        "level": "exploration",
        "exhaustive": True,
        "rule": "enum: every string over {space,tab,CR,LF,'a','c'} of length <= %d x every start offset 0..len+1 x "
                "{tabs_or_spaces,newline,next_newline} and fixed(p) for p in {empty, every prefix up to 5 bytes of the rest, "
                "the same with last/first byte mutated, rest+'a', rest+CRLF}, each with a fresh reader under 1-byte reads and "
                "chunk size 1 (plus once with pre-buffered data and an advanced cursor, and once on a reader that has already "
                "seen the end of input because an earlier request went past it; and at start offsets usize::MAX, MAX-1, MAX-2, "
                "MAX-8, 2^63, 2^32+1, where nothing is and the offset must come back unchanged; and with a source that fails "
                "after the data, its error parked in the reader); checked: returned offset == "
                "reference, position unchanged, bytes delivered by the source == max(delivered before, last index the "
                "reference must inspect + 1), read calls <= needed. sampled: random strings up to 19000 bytes, random "
                "offsets/patterns/chunk sizes/schedules (fixed, one-shot, random with Interrupted, two-part split); checked: "
                "offset, position, and that no successful read starts once the deciding byte is buffered. "
                "Non-trivial = the scanner passes over >= 1 byte or has to inspect beyond its start offset; distinct by hash "
                "of (string, offset, function, pattern, pre-buffer/schedule) - at most 200000 hashes per enum worker are "
                "stored, so the distinct count is a lower bound of the counter nontrivial_evals. words: every 8-byte word over "
                "{space, tab, '!', 0x08, LF, 'a'} (+ a short tail), fully buffered before the call so that any word-at-a-time "
                "scanning is what runs, at start offsets 0..2. sampled strings draw half of their bytes from blanks, line ends "
                "and every byte that differs from one of them in one bit or by +-1." % L,
        "jobs": jobs,
        "primary_jobs": ["enum-chk", "sampled-chk", "words-chk"],
        "eval_counters": ["evals_strict", "evals_loose"],
        "floors": {"evals_strict": q(tier, 20_000_000, 1_000_000_000), "evals_loose": q(tier, 100_000, 5_000_000),
                   "words": 2 * 6 ** 8, "evals_on_reader_that_has_seen_the_end": 1_000_000,
                   "evals_at_offsets_near_usize_max": 10_000, "evals_with_a_source_that_fails_after_the_data": 100_000,
                   "distinct_nontrivial": 100_000},
        "assumptions": ["reference semantics of the four helpers are taken from their rustdoc in flussab/src/text.rs"],
    }


def plan_C13(tier, seed):
    KL = q(tier, 6, 8)
    blocks = (sum(10 ** l for l in range(KL + 1)) + 99_999) // 100_000
    nb = q(tier, 240_000, 3_000_000)
    jobs = [
        Job("kernel-rel", "rel", "c13", blocks, {"mode": "kernel", "kernel_len": KL}, crash_is_violation=True),
        Job("kernel-chk", "chk", "c13", q(tier, 2, blocks), {"mode": "kernel", "kernel_len": KL}, crash_is_violation=True),
        Job("lanes-chk", "chk", "c13", q(tier, 18, 18 * 10), {"mode": "lanes"}, crash_is_violation=True),
        Job("lanes-rel", "rel", "c13", q(tier, 18, 18 * 10), {"mode": "lanes"}, crash_is_violation=True),
        Job("boundary-chk", "chk", "c13", nb, {"mode": "boundary"}, crash_is_violation=True),
        Job("boundary-rel", "rel", "c13", nb, {"mode": "boundary"}, crash_is_violation=True),
    ]
    if tier == "thorough":
        jobs.append(Job("boundary-miri", "miri-san", "c13", 320, {"mode": "boundary"}, nshards=16, crash_is_violation=True,
                        wall_limit=3000))
    return {
        "level": "exploration",
        "exhaustive": tier == "thorough",
        "rule": "kernel: every decimal digit string of length 0..%d, with and without a leading '-', followed by a "
                "terminator cycling through {space,LF,tab,'-',':','/','a',0x00,0xff}, scanned through the public _multi "
                "functions (i64,u64,i32,u32) with >= 8 bytes buffered (SWAR path) from one streaming reader - "
                "%s. lanes: for every count k=0..8 of digits before the terminator and every terminator byte 0..255, signed "
                "and unsigned, fully buffered (fast path) and with < 8 bytes buffered behind stale digits (cold path). "
                "boundary: per integer type (i8..i128,isize,u8..u128,usize) MIN, MAX, +-1 around them, 10^k+-1, 1..60 digits, "
                "0..30 leading zeros, '-0', lone '-', random digit-biased bytes; all four scanners; every amount 0..24 of "
                "buffered bytes (selects fast/cold path; the bytes behind the valid window are stale digits), scans starting "
                "0..12 bytes into the stream or at usize::MAX-k (k in 0,1,3,7,8,9,15,16; nothing is there: value 0, offset "
                "unchanged - D15), and six reader states: 1-byte reads / the same with the end of input already "
                "seen (an earlier request went past it) / everything from one read / one read and end seen / a source that "
                "fails after the data, under 1-byte reads / one read with that failure already seen and its error still "
                "parked in the reader. Oracle: "
                "decimal-string reference (no machine arithmetic): Some(v) iff representable and v exact, offset = end of "
                "the run, lone '-' not consumed, position unchanged, multi == simple. Non-trivial = at least one byte is "
                "passed over; distinct by hash of (bytes, offset, type, buffered amount, stale prefix); kernel hashes are "
                "capped at 100000 per worker (lower bound)." % (KL, "complete enumeration" if tier == "thorough" else
                                                               "complete for lengths <= 6 in the quick tier"),
        "jobs": jobs,
        "primary_jobs": ["kernel-rel", "lanes-chk", "boundary-chk"],
        "eval_counters": ["kernel_evals", "evals"],
        "floors": {"kernel_evals": q(tier, 10_000_000, 1_000_000_000), "evals": q(tier, 1_000_000, 50_000_000),
                   "evals_on_reader_that_has_seen_the_end": 100_000, "evals_at_offsets_near_usize_max": 10_000,
                   "evals_with_a_source_that_fails_after_the_data": 100_000, "distinct_nontrivial": 100_000},
        "assumptions": ["signed scanners are also exercised with unsigned target types (property quantifies over all twelve types)"],
    }


def plan_C02(tier, seed):
    n = q(tier, 96_000, 2_000_000)
    jobs = [
        Job("hist-chk", "chk", "c02", n, {"max_ops": 600, "max_stream": 1 << 20}, crash_is_violation=True),
        Job("hist-rel", "rel", "c02", n, {"max_ops": 600, "max_stream": 1 << 20}, crash_is_violation=True),
    ]
    if tier == "thorough":
        jobs.append(Job("hist-asan", "asan", "c02", 200_000, {"max_ops": 400, "max_stream": 1 << 18}, crash_is_violation=True))
        jobs.append(Job("hist-miri", "miri-san", "c02", 160, {"max_ops": 120, "max_stream": 3000}, nshards=16,
                        crash_is_violation=True, wall_limit=3000))
    return {
        "level": "exploration",
        "rule": "random operation histories (50..600 ops drawn from request(n), request_byte, request_byte_at_offset(k) - n and k "
                "now and then usize::MAX, usize::MAX-1, usize::MAX/2(+1), 2^62: the source is drained and the request falls "
                "short -, "
                "request_more, advance(n), advance_with_buf(n), unsafe advance_unchecked(n <= buf_len, its contract), set_mark, set_mark_to_position(p incl. near usize::MAX), "
                "set_chunk_size(1..65536), check_io_error) on a bare DeferredReader built via from_read / from_boxed_dyn_read / "
                "from_buf_reader(empty - capacity 0 included - and partly consumed BufReader with capacities 2..200 and 4096..70000, the latter "
                "holding more than one default chunk on long one-shot streams), over position-identifying zero-free streams of 0..1 MiB "
                "(one history in 120 starts with a look-ahead of 1..2 MiB on a 3..4 MiB stream, a mark, nearly all of it "
                "consumed and a refill) "
                "delivered under one-shot, fixed-k, two-part, random and random+Interrupted schedules (one history in ten with a "
                "storm of 127..1000 consecutive Interrupted results) ending in EOF, early EOF "
                "or a terminal error at a random offset. After EVERY operation: buf()==stream[cursor..delivered], buf_len, "
                "buf_ptr, position()==cursor, mark()==absolute offset it was set to, is_complete/is_at_end/io_error exactly "
                "as the source log says, short requests only after end/error, check_io_error reports once, and the read "
                "discipline (one successful read per request_more, none when satisfied, none after end). A history is "
                "non-trivial if it has >= 3 refills, >= 1 mark check more than 2*chunk bytes after the mark was set with a "
                "refill in between, and >= 1 short request; distinct by hash of (stream length, ops, read calls, final cursor, index).",
        "jobs": jobs,
        "primary_jobs": ["hist-chk"],
        "eval_counters": ["cases"],
        "floors": {"ops": q(tier, 10_000_000, 400_000_000), "refills": 1_000_000,
                   "mark_checks_far_after_refill": q(tier, 100_000, 1_000_000),
                   "variant:from_buf_reader(partly consumed)": 1000, "ended_err": 1000,
                   "bufreader_held_more_than_one_chunk": q(tier, 1000, 20_000),
                   "histories_with_a_look_ahead_above_1_mib": q(tier, 300, 5_000),
                   "interrupted_retries": 10_000, "distinct_nontrivial": q(tier, 3_000, 100_000)},
        "assumptions": ["position() wrap-around at 2^64 bytes cannot be driven; only set_mark_to_position exercises wrapping mark arithmetic"],
    }


def plan_C11(tier, seed):
    n = q(tier, 3200, 60_000)
    jobs = [
        Job("hist-chk", "chk", "c11", n, {"max_ops": 300, "max_faults": 24}, crash_is_violation=True),
        Job("hist-rel", "rel", "c11", n, {"max_ops": 300, "max_faults": 24}, crash_is_violation=True),
    ]
    if tier == "thorough":
        jobs.append(Job("hist-asan", "asan", "c11", 8000, {"max_ops": 200, "max_faults": 8}, crash_is_violation=True))
        jobs.append(Job("hist-miri", "miri-san", "c11", 48, {"max_ops": 14, "max_faults": 2}, nshards=16,
                        crash_is_violation=True, wall_limit=3000))
    return {
        "level": "exploration",
        "rule": "generated operation histories (5..300 ops: Write::write / write_all / write_all_defer_err of 0..3*capacity "
                "bytes biased around capacity+-40 and now and then 4*capacity+-2, 8*capacity+-2, up to 12*capacity and 1 MiB,  write::text::ascii_digits for all twelve integer types with boundary-heavy "
                "values, buf_write_ptr(n)+advance_unchecked(m<=n), flush, flush_defer_err, check_io_error, drop; plus boundary "
                "pairs: fill the buffer so that exactly s in 0..45 bytes are spare, then write a maximal-length integer of a "
                "random type / a slice of s-1..s+1 bytes / buf_write_ptr(s-1..s+1)) on a real "
                "DeferredWriter - also Write::write_vectored with 1..5 slices sized around the room left in the buffer, "
                "repeated on the remainder until everything is accepted, and write!() through Write::write_fmt (ten templates: char and str "
                "arguments beyond ASCII, non-ASCII fill characters with drawn widths, padded / hex / signed integers, Debug escapes; the sink must "
                "receive what format!() gives for the same arguments) - (one run in five after an earlier writer on the same thread lost its sink to a panic in the "
                "middle of a flush and was dropped by the unwind with bytes in its buffer; the sink also implements write_vectored with writev semantics - one call may take bytes from "
                "several slices and stop anywhere -; injected sink errors draw their ErrorKind from 19 non-Interrupted kinds). Each history runs once over a non-failing sink (accept-all / short writes / short+Interrupted) "
                "and then once per sink write call j that occurred (all j up to 24, sampled beyond) with the sink failing (or "
                "returning Ok(0)) at call j, sometimes with a second failure later. Judged after every operation from the "
                "merged client/sink log: non-failing - sink contents are always a prefix of the written stream and equal to "
                "it after every flush and after drop - one run in three drops the writer by unwinding from a panic of the "
                "client code (sink healthy and outliving the unwind) instead of leaving its scope -, flush returns Ok; failing - write calls succeed, no sink call between a "
                "failure and its report (the sink's own flush() counts as a call), the report comes from the next "
                "flush/check_io_error exactly once, later data "
                "arrives again, every accepted piece continues an in-order duplicate-free selection of the written stream "
                "(earliest-match per piece); buf_write_ptr(n) is non-null iff n more bytes fit. A run is non-trivial if the "
                "sink saw >= 2 write calls and more than one buffer capacity was written; distinct by hash of (index, sink "
                "calls, fault position, bytes written).",
        "jobs": jobs,
        "primary_jobs": ["hist-chk"],
        "eval_counters": ["runs"],
        "floors": {"runs": q(tier, 20_000, 800_000), "sink_failures_injected": q(tier, 10_000, 400_000),
                   "ints_via_cold_path": 1000, "boundary_fills": 10_000, "writers_dropped_by_unwinding_from_a_client_panic": 2000,
                   "runs_after_an_earlier_writer_lost_its_sink_to_a_panic": 2000, "client_write_vectored_ops": 50_000, "client_write_fmt_ops": 20_000, "client_write_fmt_ops_with_non_ascii_output": 10_000, "buf_write_ptr_nonnull": 10_000, "int_type:i128": 1000, "int_type:u8": 1000,
                   "distinct_nontrivial": q(tier, 10_000, 300_000)},
        "assumptions": ["the writer's capacity is learnt through buf_write_ptr on a fresh writer, not assumed"],
    }


def plan_C14(tier, seed):
    nr, nw = q(tier, 32_000, 600_000), q(tier, 2400, 40_000)
    jobs = [
        # behavioural half, both assertion settings
        Job("reader-chk", "chk", "c14r", nr, {"max_ops": 400, "max_stream": 1 << 18}, crash_is_violation=True),
        Job("reader-rel", "rel", "c14r", nr, {"max_ops": 400, "max_stream": 1 << 18}, crash_is_violation=True),
        Job("writer-chk", "chk", "c14w", nw, {"max_ops": 200}, crash_is_violation=True),
        Job("writer-rel", "rel", "c14w", nw, {"max_ops": 200}, crash_is_violation=True),
        # sanitizer half: AddressSanitizer (debug assertions off) and Miri (assertions off and on)
        Job("reader-asan", "asan", "c14r", q(tier, 8_000, 400_000), {"max_ops": 300, "max_stream": 1 << 16}, crash_is_violation=True),
        Job("writer-asan", "asan", "c14w", q(tier, 800, 20_000), {"max_ops": 150}, crash_is_violation=True),
        # the raw 8-byte loads of the text scanners and of the BTOR2 keyword scanner and the unchecked slicing of the
        # tokenizers are reached through the parsers: hostile parser corpus under AddressSanitizer (only a
        # sanitizer report / crash counts here; panics and values are C05's and C06's business)
        Job("scanners-asan", "asan", "c13", q(tier, 24_000, 600_000), {"mode": "boundary"}, crash_is_violation=True),
        # the text helpers (tabs_or_spaces, newline, next_newline, fixed) at every offset / amount of buffered data: with
        # chunk size 1 the window ends at the end of the allocation, so any compare / load past the window is a report
        Job("helpers-asan", "asan", "c16", q(tier, 3_000, 60_000), {"mode": "enum", "max_len": q(tier, 7, 9)}, crash_is_violation=True),
        Job("helpers-sampled-asan", "asan", "c16", q(tier, 1_000, 20_000), {"mode": "sampled"}, crash_is_violation=True),
        Job("parsers-asan", "asan", "c05", q(tier, 200_000, 8_000_000), {"quiet": 1, "max_size": 600}, cpu_limit=60,
            crash_is_violation=True),
        Job("reader-miri", "miri-san", "c14r", q(tier, 32, 640), {"max_ops": 90, "max_stream": 2000}, nshards=16,
            crash_is_violation=True, wall_limit=3000),
        Job("writer-miri", "miri-san", "c14w", q(tier, 16, 160), {"max_ops": q(tier, 8, 12)}, nshards=16,
            crash_is_violation=True, wall_limit=3000),
    ]
    if tier == "thorough":
        jobs.append(Job("reader-miri-chk", "miri-chk", "c14r", 320, {"max_ops": 90, "max_stream": 2000}, nshards=16,
                        crash_is_violation=True, wall_limit=3000))
        jobs.append(Job("reader-memcheck", "rel", "c14r", 1600, {"max_ops": 200, "max_stream": 1 << 14}, nshards=16,
                        crash_is_violation=True, valgrind=True, wall_limit=3000))
        jobs.append(Job("writer-memcheck", "rel", "c14w", 160, {"max_ops": 100}, nshards=16,
                        crash_is_violation=True, valgrind=True, wall_limit=3000))
    return {
        "level": "exploration",
        "rule": "the C02 reader histories and C11 writer histories extended with hostile steps, every one wrapped in "
                "catch_unwind and followed by ordinary operations: advance(n)/advance_with_buf(n) with n from buf_len()+1 up "
                "to usize::MAX, sources that return more bytes than the slice they were given, sources that panic, sinks "
                "that panic (then more writes, flushes and drop). Behavioural oracle: after a caught panic buf_len(), buf() "
                "content, position() and mark() are the model's state from before the failed call (length compared first so a "
                "wild slice is reported, not read); nothing beyond what the source really delivered is exposed (streams are "
                "position-identifying and zero-free, so zero fill or stale bytes cannot pass). Sanitizer oracle: the same "
                "histories, content reads included, under AddressSanitizer (debug assertions off, so a broken invariant "
                "reaches get_unchecked/set_len) and under Miri; any sanitizer report, abort or signal is attributed to the "
                "journalled history and is a violation. The unsafe code reached only through parsers (8-byte loads in text.rs and "
                "btor2/token.rs, from_utf8_unchecked, unchecked slicing) is driven by the hostile parser corpus of C05 under "
                "AddressSanitizer as well, and so are the digit scanners (C13's boundary workload) and the four text helpers "
                "(C16's exhaustive and sampled workloads) - with chunk size 1 the window ends at the end of the "
                "allocation, so a load or compare past the window is a report. A history is non-trivial if >= 1 panic was caught and >= 2 refills "
                "happened (reader) or the sink saw >= 2 calls over more than one capacity (writer).",
        "jobs": jobs,
        "primary_jobs": ["reader-chk", "writer-chk"],
        "eval_counters": ["cases"],
        "floors": {"panics_caught": q(tier, 100_000, 3_000_000), "lying_reads": q(tier, 2_000, 50_000),
                   "distinct_nontrivial": q(tier, 5_000, 100_000)},
        "assumptions": ["red-zone tools and Miri do not see an access that stays inside the reader's own Vec but outside the valid window; that case is covered only by the behavioural (content) oracle"],
    }


PARSER_FLOORS = {"parser:cnf": 100, "parser:wcnf": 100, "parser:gcnf": 100, "parser:aag": 100, "parser:aig": 100,
                 "parser:btor2": 100}


def plan_C01(tier, seed):
    n = q(tier, 320_000, 8_000_000)
    jobs = [
        Job("diff-chk", "chk", "c01", n, {"max_size": 3000}),
        Job("diff-rel", "rel", "c01", n, {"max_size": 3000}),
    ]
    if tier == "thorough":
        jobs.append(Job("diff-miri", "miri-san", "c01", 224, {"max_size": 6, "light": 1}, nshards=16, crash_is_violation=True,
                        wall_limit=3000))
    fl = dict(PARSER_FLOORS)
    fl.update({"parser:log": 100, "pairs": q(tier, 3_000_000, 150_000_000), "nontrivial_pairs": q(tier, 1_000_000, 50_000_000),
               "ref_accepted": 10_000, "ref_syntax_error": 10_000, "interrupted_reads": 100_000,
               "ctor:new": 100_000, "ctor:from_read": 10_000, "ctor:from_boxed_dyn_read": 10_000, "ctor:from_buf_reader": 10_000,
               "ctor:new_on_advanced_reader": 10_000, "ctor:new_on_reader_that_looked_ahead_to_the_end": 10_000,
               "runs_with_an_interrupt_storm": 50_000, "aiger_runs_skipping_sections": 5_000,
               "distinct_nontrivial": q(tier, 1_000_000, 10_000_000)})
    return {
        "level": "exploration",
        "rule": "per input (grammar-generated with free layout / mutated / arbitrary / hostile catalogue / repository test "
                "literals; all seven parsers; all literal types; both settings of ignore_header / ignore_unknown_lines; AIGER "
                "through parse() and through the section readers): the trace under one-shot delivery with the default chunk "
                "size is compared with the trace under 1-byte reads with chunk size 1, five random (schedule, chunk size or "
                "constructor) combinations - schedules fixed-k, two-part split, random sizes with and without Interrupted; "
                "chunk sizes 1,2,3,7,8,9,16,17,64,1024,16384; constructors new/from_read/from_boxed_dyn_read/from_buf_reader "
                "with a prefilled BufReader (capacities 1..100 and 4096..70000, i.e. also holding more than one default "
                "chunk), and Parser::new on a LineReader built from a reader that was already advanced over a 1..60 byte "
                "preamble ('line 1 starts at the current position') or that had already looked ahead to the end of the "
                "source; one run in eight has a storm of 64..70000 consecutive Interrupted results in front of one of its "
                "first eight reads (possibly the one reporting the end) - and, for a third of the inputs up to 256 bytes, two-part splits at EVERY offset. "
                "Compared: every returned item (canonical rendering) and End | Syntax(line,column) | Io; message text is "
                "counted but not judged. A pair (input, schedule) is non-trivial if the schedule made >= 2 successful reads, a "
                "read boundary fell strictly inside a token and the run returned an item or a located error; distinct by hash "
                "of (parser, type, config, input, schedule, seed, constructor).",
        "jobs": jobs, "primary_jobs": ["diff-chk"], "eval_counters": ["pairs"], "floors": fl,
        "assumptions": ["differential oracle: a defect that is identical under all schedules is not visible here (C06/C07/C08 are for that)"],
    }


def plan_C04(tier, seed):
    n = q(tier, 48_000, 1_200_000)
    jobs = [
        Job("faults-chk", "chk", "c04", n, {"max_len": 2048}),
        Job("faults-rel", "rel", "c04", n, {"max_len": 2048}),
    ]
    fl = dict(PARSER_FLOORS)
    fl.update({"parser:log": 100, "fault_runs": q(tier, 5_000_000, 250_000_000), "final_io": 1_000_000,
               "fault_runs_with_a_failure_that_is_not_repeated": 1_000_000,
               "final_fault_free_syntax_error_before_fault": 100_000, "accepted_ending_in_comment": 200,
               "accepted_ending_in_node_comment": 100, "accepted_without_final_newline": 500,
               "distinct_nontrivial": q(tier, 1_000_000, 2_000_000)})
    return {
        "level": "fault_enumeration",
        "rule": "for every input (<= 2 KiB; generated documents ending in every possible way - with/without final newline, in a "
                "comment, in the AIGER comment section, in a BTOR2 comment or symbol - plus mutated, arbitrary, hostile and "
                "repository-test inputs; all seven parsers, AIGER through both APIs) EVERY fault offset k in 0..=len is run "
                "twice: the source delivers the first k bytes (1-byte reads with chunk 1; and one-shot / random+Interrupted / "
                "fixed-k with another chunk size or - half of the inputs - through another constructor: from_read, "
                "from_boxed_dyn_read, from_buf_reader with a prefilled BufReader, new on an advanced reader, new on a reader "
                "that had already looked ahead to the end so that data and error are parked in it before parsing starts; "
                "one run in eleven with 129..1000 consecutive Interrupted results first) and then fails "
                "- forever, or only once and then reports a plain end of input, or only once and then goes on delivering "
                "(a third of the second runs each) - with an error whose ErrorKind is drawn per run from 19 non-Interrupted kinds (Other, BrokenPipe, "
                "UnexpectedEof, WouldBlock, TimedOut, ConnectionReset, ..., AddrNotAvailable). Oracle: final result "
                "never End; it is Io, or the fault-free run's Syntax(line,col) provided that run (1-byte reads, chunk 1, whose "
                "read-call count is exactly how far the parser looked) looked at <= k bytes; every item handed out equals the "
                "fault-free item at that index. A fault run is non-trivial if 0 < k < len and the source's error was actually "
                "returned; distinct by hash of (input, parser config, k, schedule variant), hash set capped at 150000 per "
                "worker (lower bound of the counter nontrivial_fault_runs).",
        "jobs": jobs, "primary_jobs": ["faults-chk"], "eval_counters": ["fault_runs"], "floors": fl,
        "exhaustive": False,
        "assumptions": ["exhaustive in the fault offset per input, sampled over inputs and delivery schedules"],
    }


def plan_C05(tier, seed):
    n = q(tier, 3_200_000, 60_000_000)
    jobs = [
        Job("robust-chk", "chk", "c05", n, {"max_size": 3000}, cpu_limit=CPU_LIMIT["c05"], crash_is_violation=True),
        Job("robust-rel", "rel", "c05", n, {"max_size": 3000}, cpu_limit=CPU_LIMIT["c05"], crash_is_violation=True),
    ]
    if tier == "thorough":
        jobs.append(Job("robust-asan", "asan", "c05", 4_000_000, {"max_size": 1000}, cpu_limit=60, crash_is_violation=True))
    fl = dict(PARSER_FLOORS)
    fl.update({"parser:log": 100, "inputs": q(tier, 3_000_000, 100_000_000), "accepted": 500_000, "syntax_errors": 500_000,
               "giant_item_documents": 50, "giant_item_documents_accepted": 50,
               "ring_circuits": 1000, "ring_circuits_answered_with_FoundCycle": 1000,
               "class:hostile": 100_000, "distinct_keys": 250, "distinct_nontrivial": q(tier, 1_000_000, 10_000_000)})
    return {
        "level": "exploration",
        "rule": "one worker process parses each input (grammar-generated incl. extreme numbers / mutated / arbitrary / hostile "
                "catalogue with 200-digit numbers, invalid UTF-8, truncated files, over-long varints and headers declaring "
                "counts up to 2^64-1 / repository test literals; all parsers, literal types and configs; one-shot, 1-byte and "
                "random schedules; all constructors; about one input in 30000 is a 2..6 MB document with one item of more than "
                "2^20 entries - clause, value line, justice line, AIGER output section - followed by an empty and an ordinary "
                "item; the streaming parsers are asked once more after they reported the end) to its final result inside catch_unwind, in the chk build (overflow checks + debug "
                "assertions) and in the rel build. Violations: panic; process abort / signal / stack overflow (attributed via "
                "the case journal); more than 20 CPU-seconds on one input (ITIMER_VIRTUAL); more items than input bytes + 1; "
                "peak live heap above 64*delivered + 2 MiB (counting allocator; any single request above 1 GiB is refused). "
                "An input is non-trivial if it reaches at least the second token; distinct by hash of (input, parser config). "
                "distinct_keys = number of distinct syntax-error message templates (numbers and quoted excerpts masked) "
                "observed across all workers. One AIGER case in 500 also drives the circuit-level entry point of aig.rs "
                "(Renumber::new / renumber_aig, all option combinations) with a ring of 1..=24 gates reachable from an output, "
                "random polarities, side inputs and gate order: it has to answer FoundCycle within the same CPU and 2 MiB bounds.",
        "jobs": jobs, "primary_jobs": ["robust-chk"], "eval_counters": ["inputs"], "floors": fl,
        "assumptions": ["termination is decided up to the CPU budget of 20 s per input (inputs <= 1 MiB, normal cost is microseconds)"],
    }


def plan_C07(tier, seed):
    n = q(tier, 800_000, 20_000_000)
    jobs = [
        Job("layout-chk", "chk", "c07", n, {}),
        Job("layout-rel", "rel", "c07", n, {}),
    ]
    fl = {"renderings": q(tier, 700_000, 30_000_000), "distinct_keys": 200, "distinct_nontrivial": q(tier, 100_000, 5_000_000)}
    import re
    # every layout feature must have been drawn
    for f in ["multi_blank_between_tokens", "tab_separator", "trailing_blanks", "leading_blanks", "blank_line_before_header",
              "blank_line_between_clauses", "blank_line_inside_clause", "crlf_blank_line_inside_clause", "comment_before_header", "comment_between_clauses",
              "comment_inside_clause", "clause_split_over_lines", "crlf", "no_final_newline", "leading_zeros",
              "minus_zero_terminator", "comment_with_cr_or_digits", "split_after_weight_or_group", "empty_comment",
              "blank_only_line_with_spaces", "final_blanks_no_newline", "comment_with_non_ascii_bytes",
              "last_line_of_any_kind_without_newline"]:
        fl["feature:dimacs:" + f] = 1000
    for f in ["comment_lines", "unknown_lines", "values_split_over_lines", "empty_value_line", "status_before_values",
              "status_between_values", "status_after_values", "crlf", "no_final_newline", "multi_blank_between_values",
              "leading_zeros", "minus_zero_terminator", "lines_with_non_ascii_bytes", "near_miss_of_a_line_marker"]:
        fl["feature:log:" + f] = 300
    return {
        "level": "exploration",
        "rule": "an abstract value (optional header + clauses with extreme literals / weights / groups, or solver status + "
                "assignment) is rendered by a layout grammar that chooses independently, at every place the parsers document or "
                "test as free: 1..4 spaces/tabs between tokens, trailing and leading blanks, blank lines and comment lines "
                "(before the header, between clauses, inside a split clause, after weight/group; comment text: fixed samples or "
                "0..360 arbitrary bytes other than LF with weight on bytes >= 0x80), clauses spread over lines, LF "
                "or CRLF per line, missing final newline (after whatever the last line is: header, clause, comment, blank), 0..30 leading zeros, '-0' terminator; solver log: value lines split "
                "anywhere, empty value lines, comment lines and (with ignore_unknown_lines) arbitrary other lines anywhere, "
                "status before/between/after the value lines. Each rendering is parsed one-shot and under a random small-chunk "
                "schedule and must return exactly the abstract value and a clean end; all five literal types, with and without "
                "header. Non-trivial = at least 3 different layout features in one rendering; distinct by hash of the rendered "
                "bytes and parser config. distinct_keys = number of distinct pairs of features that co-occurred (interaction "
                "coverage).",
        "jobs": jobs, "primary_jobs": ["layout-chk"], "eval_counters": ["parses"], "floors": fl,
        "assumptions": ["the layout grammar covers the freedoms documented or tested in flussab-cnf; '{g}' is always followed by at least one blank"],
    }


def plan_C09(tier, seed):
    n = q(tier, 600_000, 12_000_000)
    jobs = [
        Job("lines-chk", "chk", "c09", n, {}),
        Job("lines-rel", "rel", "c09", n, {}),
        Job("reader-discipline", "rel", "c02", q(tier, 16_000, 600_000), {"only_discipline": 1, "max_ops": 400,
                                                                           "max_stream": 1 << 18}),
    ]
    fl = dict(PARSER_FLOORS)
    fl.update({"oracle1_checks": q(tier, 2_000_000, 100_000_000), "oracle2_checks": q(tier, 500_000, 20_000_000),
               "docs_with_line_longer_than_chunk": 10_000, "refills": 1_000_000,
               "ctor:new": 50_000, "ctor:from_read": 20_000, "ctor:from_boxed_dyn_read": 20_000,
               "ctor:from_buf_reader_holding_first_line": 50_000, "ctor:new_on_advanced_reader": 20_000,
               "runs_with_a_failing_source": 100_000, "io_errors_returned_then_asked_again": 30_000,
               "distinct_nontrivial": q(tier, 150_000, 3_000_000)})
    return {
        "level": "exploration",
        "rule": "documents of every streaming parser (cnf, wcnf, gcnf, aag and aig section readers, btor2; mostly well-formed "
                "generated documents with comments and blank lines in all positions, CRLF, lines longer than the chunk size; "
                "some mutated/arbitrary ones) are delivered by a source that returns at most one line (one binary and-gate) "
                "per read(), with chunk sizes 16/64/16384 and through every constructor (new, from_read, from_boxed_dyn_read, "
                "from_buf_reader with a BufReader that already holds the first line, new on a reader advanced over a "
                "preamble); the source's delivered-byte counter is sampled at the moment each "
                "item (header, clause, section entry, symbol, BTOR2 line) is returned. Oracle 1: delivered <= end offset of the "
                "line completing the item (from the generator's token map). Oracle 2 (no token map): the data before the "
                "previous line end followed by end of input must not already yield the identical item. Plus the reader-level "
                "read discipline on random DeferredReader histories (one successful read per refill, none when satisfied, none "
                "after end/error - the error kinds are drawn from 19, WouldBlock and TimedOut among them), and a third of the "
                "documents once more from a source that fails at a line end or inside a line: after the parser returned the "
                "I/O error and was asked again, the source's log must show no further call. A document is non-trivial if >= 2 items were returned over >= 3 lines; distinct by hash of "
                "(bytes, parser config, chunk).",
        "jobs": jobs, "primary_jobs": ["lines-chk"], "eval_counters": ["items_observed"], "floors": fl,
        "assumptions": ["the AIGER comment section is 'the rest of the file' and is not a streamed item"],
    }


def plan_C06(tier, seed):
    n = q(tier, 1_200_000, 30_000_000)
    jobs = [
        Job("ref-chk", "chk", "c06", n, {}),
        Job("ref-rel", "rel", "c06", n, {}),
    ]
    fl = dict(PARSER_FLOORS)
    fl.update({"parser:log": 100, "accepted_and_confirmed": q(tier, 1_000_000, 50_000_000), "items_compared": 5_000_000,
               "limit_aimed_accepted": 100_000, "limit_aimed_rejected_by_both": 100_000, "aiger_section_skipping_parses": 100_000,
               "lit:i8": 1000, "lit:i16": 1000, "lit:i32": 1000, "lit:i64": 1000, "lit:isize": 1000,
               "lit:u8": 1000, "lit:u16": 1000, "lit:u32": 1000, "lit:u64": 1000, "lit:usize": 1000,
               "distinct_nontrivial": q(tier, 300_000, 10_000_000)})
    return {
        "level": "exploration",
        "rule": "every input is read twice: by the real parser (one-shot = SWAR scanner paths, and 1-byte reads with chunk 1 = "
                "byte-wise paths) and by an independent lexical reference (harness/src/refread.rs: line/blank tokenizer, "
                "arbitrary-precision decimal strings, byte-wise varint decoding, no shared code, no machine integers in range "
                "decisions) that also checks every declared limit: var_count <= MAX_DIMACS(L); unless ignore_header: |literal| "
                "<= var_count, exactly clause_count clauses, group <= group_count (0 = unspecified); always |literal| <= "
                "MAX_DIMACS; solver-log values; AIGER: M <= (MAX_CODE-1)/2, I+L+A <= M, literals <= 2M+1, defining literals "
                "even and non-zero, section sizes = header counts, latch reset in {0,1,own}, deltas <= reference code, symbol "
                "index < section count; BTOR2: ids/widths/indices exact in u64, ids and widths non-zero. Whenever the parser "
                "ACCEPTS, the reference must accept too with identical items. AIGER inputs are read a third time through the "
                "section readers with a random pattern of moving on early (none / one entry of a section taken): accepted means "
                "the reference accepts and the entries handed out are those the text has at these places. One shared-corpus "
                "input in 300 is a large document (an AIGER section / DIMACS clause / BTOR2 line with 4095..12000 entries). Half of the inputs come from the shared corpus, "
                "half from a limit-aimed generator (one number token of a well-formed document moved to limit-1 / limit / "
                "limit+1 / 10*limit / +-1 / 2^64, both signs, 0..30 leading zeros). Non-trivial = accepted input with >= 2 items, "
                "or a limit-aimed input rejected by both; distinct by hash of (bytes, parser config).",
        "jobs": jobs, "primary_jobs": ["ref-chk"], "eval_counters": ["parses"], "floors": fl,
        "assumptions": ["the reference reader is independent code but written by the same author as the generators"],
    }


def plan_C08(tier, seed):
    nr, ne = q(tier, 800_000, 20_000_000), q(tier, 800_000, 20_000_000)
    jobs = [
        Job("range-chk", "chk", "c08", nr, {"mode": "range"}),
        Job("range-rel", "rel", "c08", nr, {"mode": "range"}),
        Job("exact-chk", "chk", "c08", ne, {"mode": "exact"}),
        Job("exact-rel", "rel", "c08", ne, {"mode": "exact"}),
    ]
    fl = dict(PARSER_FLOORS)
    fl.update({"parser:log": 100, "located_errors": q(tier, 1_000_000, 50_000_000), "errors_beyond_line_1": 300_000,
               "corrupted_documents": q(tier, 600_000, 30_000_000), "catalogue:justice sizes": 2000,
               "distinct_nontrivial": q(tier, 200_000, 5_000_000)})
    return {
        "level": "exploration",
        "rule": "range: every rejected input of the shared corpus (generated / mutated / arbitrary / hostile / repository "
                "literals; all parsers) under one-shot, 1-byte/chunk-1, a random small-chunk schedule and a random schedule "
                "through a random constructor (from_read, from_boxed_dyn_read, from_buf_reader prefilled, and new on a reader "
                "that was advanced over a 1..60 byte preamble before the LineReader was built - line 1 starts there): 1 <= line <= lines+1 "
                "and 1 <= column <= length of that line + 1 (binary AIGER: the and-gate section, as decoded by the independent "
                "reference reader, belongs to the line it starts on). exact: a well-formed generated document with a token "
                "map is corrupted at exactly one token from the catalogue {garbage token in place of a number; number one above "
                "its declared or hard limit; number beyond any machine integer; leading zero (AIGER/BTOR2); odd or zero "
                "defining literal; separator replaced by tab or doubled; unknown BTOR2 keyword; invalid UTF-8 byte inside an "
                "AIGER symbol name; binary delta larger than its reference; two consecutive AIGER justice sizes that each fit "
                "usize while the running total does not (the error belongs to the second)} and parsed under the same four schedules, with "
                "documents long enough that the error lies beyond 2*chunk (location bookkeeping across realigns): the reported "
                "line must be the token's line and the column must lie on the replacement token. Non-trivial = located error "
                "beyond line 1; distinct by hash of (bytes, parser config[, location]).",
        "jobs": jobs, "primary_jobs": ["range-chk", "exact-chk"], "eval_counters": ["located_errors", "parses"], "floors": fl,
        "assumptions": ["catalogue entries whose error position is ambiguous (deleted newline, tab after a BTOR2 symbol, doubled space before free text) are excluded"],
    }


def plan_C03(tier, seed):
    n = q(tier, 1_200_000, 40_000_000)
    jobs = [
        Job("roundtrip-chk", "chk", "c03", n, {}),
        Job("roundtrip-rel", "rel", "c03", n, {}),
    ]
    fl = dict(PARSER_FLOORS)
    fl.update({"roundtrips": q(tier, 1_200_000, 60_000_000), "direction2_accepted_texts": 100_000,
               "btor_const_ctor_accepted": 10_000, "btor_const_ctor_refused": 1000,
               "choice:document_larger_than_writer_buffer": 1000, "choice:empty_clause": 1000, "choice:no_header": 1000,
               "choice:latch_reset_0": 1000, "choice:latch_reset_1": 1000, "choice:latch_uninitialised": 1000,
               "choice:gate_inputs_given_smaller_first": 1000, "choice:comment": 1000,
               "choice:btor_symbol": 1000, "choice:btor_node_comment": 1000, "choice:btor_comment_line": 1000,
               "aiger_section_skipping_roundtrips": 50_000, "btor_documents_also_through_display": 20_000,
               "choice:clause_with_more_than_4096_literals": 200,
               "choice:aiger_writer_object_reused_for_a_second_document": 20_000, "choice:arbitrary_header_parsed_with_ignore_header": 50_000, "choice:btor_justice_with_more_than_4096_nodes": 30,
               "choice:btor_constant_with_more_than_4096_digits": 30, "choice:btor_symbol_longer_than_chunk": 30,
               "choice:btor_comment_longer_than_chunk": 30, "btor_const_candidates_with_non_ascii_characters": 1000,
               "distinct_nontrivial": q(tier, 400_000, 10_000_000)})
    for k in range(1, 11):
        fl["choice:varint_len:%d" % k] = 50
    for k in range(5, 10):
        fl["choice:header_fields_written:%d" % k] = 100
    for k in "ilobcjf":
        fl["choice:symbol_kind:" + k] = 1000
    for k in ["inputs", "latches", "gates", "outputs", "bad", "constraints", "justice_properties", "one_justice_property",
              "fairness", "symbols"]:
        fl["choice:aiger_long_section:" + k] = 50
    for t in ["i8", "i16", "i32", "i64", "isize"]:
        fl["choice:extreme_literal:" + t] = 1000
    btor = ["sort_bitvec", "sort_array", "const", "constd", "consth", "one", "ones", "zero", "input", "state", "uext", "sext",
            "slice", "init", "next", "bad", "constraint", "fair", "output", "justice", "not", "inc", "dec", "neg", "redand",
            "redor", "redxor", "iff", "implies", "eq", "neq", "ugt", "sgt", "ugte", "sgte", "ult", "slt", "ulte", "slte", "and",
            "nand", "nor", "or", "xnor", "xor", "rol", "ror", "sll", "sra", "srl", "add", "mul", "udiv", "sdiv", "smod", "urem",
            "srem", "sub", "uaddo", "saddo", "sdivo", "umulo", "smulo", "usubo", "ssubo", "concat", "read", "ite", "write"]
    for k in btor:
        fl["choice:btor:" + k] = 100
    return {
        "level": "exploration",
        "rule": "direction 1 (2/3 of the cases): typed values are built directly from abstract documents (never by parsing; a third of the "
                "DIMACS documents with an arbitrary header whose counts do not fit the clauses, parsed back with "
                "ignore_header(true); a quarter of the AIGER documents is the second one written with its "
                "writer object) - "
                "CNF/WCNF/GCNF headers and clauses over all five literal types with extreme literals, weights and groups over "
                "all of u64, empty clauses, with/without header; AIGER Aig (ascii write_aig) and OrderedAig (ascii and binary "
                "write_ordered_aig) with every count 0/1/2/few/many independently (B,C,J,F larger than M-I-L and than L), all "
                "latch reset forms, one section in turn (inputs, latches, gates, outputs, bad, constraints, justice properties, "
                "one justice property, fairness, symbols) with 4095..12000 entries in large documents, DIMACS clauses with "
                "4095..12000 literals, BTOR2 justice lines with that many nodes, constants with > 16000 digits, symbols and "
                "comments longer than 16 KiB, symbols of every kind at index 0/count-1/random, arbitrary UTF-8 names and comments, "
                "trailing-zero header fields, delta codes of every 7-bit length 1..10 (huge input counts), gate inputs given "
                "in either order; BTOR2 lines of every operator / sort / output kind with ids up to u64::MAX, constants built "
                "through the validating TryFrom constructors from candidate strings that also contain non-digits, characters "
                "that are digits or numeric only for Unicode (Arabic-Indic, fullwidth, superscript, Roman numeral, "
                "mathematical) or are empty; "
                "OrderedAig additionally converted with Aig::from and written by write_aig; BTOR2 lines additionally rendered "
                "with Display (UTF-8 documents); every AIGER document additionally (1/2) read through the section readers "
                "moving on before a section is exhausted (none / one entry taken): the entries handed out are the written "
                "ones and the end is clean - written by "
                "the real writers through a DeferredWriter (documents > 16 KiB included) and parsed back: every field equal "
                "(canonical rendering) and a clean end. direction 2 (1/3): every text of the shared corpus that a parser "
                "accepts is parsed to typed values, written and parsed again. Non-trivial = at least 2 items; distinct by hash "
                "of the written bytes; one counter per value-dependent encoding choice, each with a floor.",
        "jobs": jobs, "primary_jobs": ["roundtrip-chk"], "eval_counters": ["roundtrips"], "floors": fl,
        "assumptions": ["values constructible only by struct literal outside the grammar (Justice(&[]), empty symbol, symbol starting with ';', names with newlines) are not in the domain"],
    }


def plan_C10(tier, seed):
    mib = q(tier, 64, 512)
    jobs = [
        Job("stream-rel", "rel", "c10", 192, {"mib": mib}, crash_is_violation=True, wall_limit=7200),
        Job("stream-chk", "chk", "c10", 192, {"mib": q(tier, 8, 64)}, crash_is_violation=True, wall_limit=7200),
        # solver logs: the result (status + a short assignment) is tiny, the bytes are comments / ignored lines
        Job("log-rel", "rel", "c10", 48, {"mib": q(tier, 32, 256), "log": 1}, crash_is_violation=True, wall_limit=7200),
        Job("log-chk", "chk", "c10", 48, {"mib": q(tier, 8, 64), "log": 1}, crash_is_violation=True, wall_limit=7200),
        # record consumers on a bare DeferredReader, each using one family of look-ahead calls only
        Job("raw-rel", "rel", "c10", 84, {"mib": q(tier, 32, 256), "raw": 1}, crash_is_violation=True, wall_limit=7200),
        Job("raw-chk", "chk", "c10", 84, {"mib": q(tier, 8, 64), "raw": 1}, crash_is_violation=True, wall_limit=7200),
    ]
    if tier == "thorough":
        jobs.append(Job("stream-1g", "rel", "c10", 24, {"mib": 1024}, crash_is_violation=True, wall_limit=7200))
    return {
        "level": "exploration",
        "exhaustive": True,
        "rule": "the complete grid {cnf, wcnf, gcnf, btor2, aag section readers, aig section readers - with each of the nine AIGER "
                "sections (inputs, latches, outputs, bad, constraints, justice sizes+literals, fairness, gates, symbols) in turn "
                "being the long one, and with a consumer that takes every entry or only two entries of each section before "
                "moving on (the section readers pass over the rest); DIMACS with four stream shapes: clauses only / declared clause count, all clauses, then "
                "comment and blank lines for the rest of the stream / comment and blank lines for half of the stream in front "
                "of the header / clauses split over lines around comments plus blocks of 3000 comment and blank lines every "
                "1000 clauses, every other block standing inside a clause that is left open in front of it; BTOR2 with three line mixes: mixed, symbol+comment on every line, comment lines between "
                "symbol-only nodes} x chunk size "
                "{64,4096,16384,65536} x read size {1,7,chunk,random} x item profile {all small; one 1 MiB comment line early, "
                "then small (text formats)} = 192 configurations; each streams N = %d MiB (rel build; chk build with less) "
                "generated on the fly (never materialised, items dropped at once; 10^6..10^8 items; the AIGER headers declare "
                "10^6..10^8 gates which the section API must not pre-allocate). Oracle: peak live heap of the whole run "
                "(counting global allocator, exact maximum) <= 8*chunk + 4*largest_item + 16 KiB, which does not depend on N "
                "and is about twice what the pinned tree needs (4*chunk + <300 B; 2*item for the big comment). Evidence also "
                "records the peak after the first half of the items and the live heap at the end (plateau, not judged). Every "
                "configuration is distinct and non-trivial (each streams at least 4x, all-small profiles at least 100x, its "
                "bound). Solver logs are streamed the same way in a grid of their own (3 line mixes: comment lines in strict "
                "mode / one run of lines to be ignored and blank lines / comments, ignored lines, blank lines and a value line "
                "every 70000 lines - x 4 chunk sizes x 4 read sizes): the result, status plus at most 83 literals, is the "
                "only item. Record consumers working directly on a DeferredReader have a third grid (7 styles, each using one "
                "family of look-ahead calls only: request+advance / request_byte_at_offset+advance / request_more+"
                "advance_with_buf / length-prefixed records via request_byte+request+advance / a steady look-ahead of three "
                "chunks via request or via request_byte_at_offset, advancing one record at a time / request+advance with set_chunk_size called again before every record - x 4 chunk sizes x 3 read sizes: "
                "1 byte, a full chunk, exactly one record per read)." % mib,
        "jobs": jobs, "primary_jobs": ["stream-rel"], "eval_counters": ["streams"],
        "floors": dict({"streams": 2 * 192 + 2 * 48 + 2 * 84, "log_streams": 2 * 48, "raw_streams": 2 * 84, "streams_100x_bound": 150, "items": q(tier, 500_000_000, 4_000_000_000),
                        "distinct_nontrivial": 150},
                       **{"btor_profile:%d" % k: 16 for k in range(3)},
                       **{"aiger_consumer:" + k: 60 for k in ["every_entry", "two_entries_per_section"]},
                       **{"log_profile:" + k: 32 for k in ["comment_lines_strict", "run_of_ignored_lines",
                                                            "mixed_with_value_lines"]},
                       **{"raw_style:" + k: 24 for k in ["request+advance", "request_byte_at_offset+advance",
                                                          "request_more+advance_with_buf",
                                                          "length_prefixed:request_byte+request+advance",
                                                          "steady_lookahead_of_3_chunks:request+advance",
                                                          "steady_lookahead_of_3_chunks:request_byte_at_offset+advance"]},
                       **{"dimacs_profile:" + k: 40 for k in ["clauses_only", "declared_count_then_comment_tail",
                                                               "comment_prelude_before_header",
                                                               "split_clauses_and_comment_blocks"]},
                       **{"aiger_long_section:" + k: 4 for k in ["inputs", "latches", "outputs", "bad", "constraints",
                                                                  "justice", "fairness", "gates", "symbols"]}),
        "assumptions": ["N is bounded (64 MiB quick, 512 MiB / 1 GiB thorough); the claim for larger N rests on the bound not depending on N"],
    }


def plan_C12(tier, seed):
    n = q(tier, 128_000, 4_000_000)
    jobs = [
        Job("wellformed-chk", "chk", "c12", n, {"mode": "wellformed", "rounds": q(tier, 4, 64)}, cpu_limit=20,
            crash_is_violation=True),
        Job("wellformed-rel", "rel", "c12", n, {"mode": "wellformed", "rounds": q(tier, 4, 64)}, cpu_limit=20,
            crash_is_violation=True),
        Job("illformed-chk", "chk", "c12", n, {"mode": "illformed"}, cpu_limit=20, crash_is_violation=True),
        Job("illformed-rel", "rel", "c12", n, {"mode": "illformed"}, cpu_limit=20, crash_is_violation=True),
        Job("deep-rel", "rel", "c12", q(tier, 24, 48), {"mode": "deep", "deep_log2": q(tier, 20, 23),
                                                       "live_ceiling_mb": q(tier, 3072, 12000)}, cpu_limit=600,
            nshards=q(tier, 16, 4), crash_is_violation=True),
        Job("deep-chk", "chk", "c12", 16, {"mode": "deep", "deep_log2": q(tier, 18, 21)}, cpu_limit=600,
            crash_is_violation=True),
    ]
    return {
        "level": "exploration",
        "rule": "both entry points (renumber_aig and Renumber::new) must agree in verdict, literal map and gate list. "
                "well-formed: random AIGs (arbitrary sparse unordered even literal numbering incl. max_var_index at the type's "
                "limit, gate order shuffled against dependency order, constants and negated literals as gate inputs, x&x, "
                "x&!x, duplicate gates, unused gates, one graph in four with about half of its gates defined through their ODD literal "
                "(the variable is the NAND; references of both polarities unchanged), 0..k of every section, symbols/comment, all five literal types) x all 8 "
                "(trim, structural_hash, const_fold) combinations. Checked per result: inputs then latches then gates "
                "numbered consecutively, max_var_index = their count, every gate's inputs numbered below it with the larger "
                "first, every output / latch next-state / bad / constraint / justice / fairness literal evaluates identically "
                "in original and result (independent iterative simulator, 64 assignments per word: exhaustive truth tables up "
                "to 6 inputs+latches, else R random rounds), lit_map.get(l) evaluates like l (and contains_key / len / is_empty agree with get) for every defined literal of "
                "either polarity, reset values / symbols / comment carried over, and the result survives the binary writer "
                "and parser unchanged. ill-formed: exactly one reachable defect each - combinational cycle (self loop or "
                "length 2, either polarity, through either input), undefined literal (root or gate input), doubly defined "
                "literal (input/latch/gate against input/latch/gate/negation/constant) - must yield FoundCycle / "
                "LitNotDefined / LitAlreadyDefined under all 8 option sets. deep: chains and DAGs of 2^%d gates renumbered in a "
                "thread with a 256 KiB stack within the CPU budget and checked by simulation. Non-trivial = well-formed graph "
                "with >= 2 gates and >= 1 root, or any ill-formed graph; distinct by hash of the graph." % q(tier, 20, 23),
        "jobs": jobs, "primary_jobs": ["wellformed-chk", "illformed-chk", "deep-rel"], "eval_counters": ["renumberings"],
        "floors": {"renumberings": q(tier, 1_500_000, 100_000_000), "lit_map_checks": 10_000_000,
                   "literal_comparisons": 20_000_000, "results_with_fewer_gates": 100_000,
                   "defect:FoundCycle": 10_000, "defect:LitNotDefined": 10_000, "defect:LitAlreadyDefined": 10_000,
                   "deep_graphs": 40, "lit:u8": 1000, "lit:usize": 1000, "graphs_with_gates_defined_by_an_odd_literal": 5000,
                   "distinct_nontrivial": q(tier, 60_000, 3_000_000)},
        "assumptions": ["'arbitrarily deep' is restated as depth 2^20 (quick) / 2^23 (thorough) within 600 CPU-seconds on a 256 KiB stack"],
    }
