"""Per-property run plans: which monitors run in which build flavour with which budget.

A plan is a dict: level, rule, jobs (list of check.Job), floors (counter -> minimum, a run below a
floor is inconclusive), exhaustive (optional), assumptions.
Budgets scale with the tier only through `count` (and a few explicit size parameters), and the
mapping index -> case does not depend on the budget, so a replay file stays valid across tiers.
"""
from driver import Job

# CPU seconds allowed per case (ITIMER_VIRTUAL inside the worker), by monitor command
CPU_LIMIT = {"c05": 20, "c12": 60}

COMMON_ASSUME = [
    "x86_64-linux only; rustc/std, the harness crate and the sanitizers are trusted",
    "verdict covers exactly the executions produced by this run (seeded, replayable); nothing is claimed about inputs, schedules or histories that were not generated",
]


def q(tier, quick, thorough):
    return quick if tier == "quick" else thorough


def plan(prop, tier, seed):
    f = globals().get("plan_" + prop)
    if not f:
        raise SystemExit("no plan for property " + prop)
    p = f(tier, seed)
    p.setdefault("assumptions", [])
    p["assumptions"] = COMMON_ASSUME + p["assumptions"]
    return p


def plan_C15(tier, seed):
    n = q(tier, 7, 9)  # token strings up to length n-1... case k>0 enumerates all strings of length k-1
    jobs = [
        Job("table-chk", "chk", "c15", n + 1, {"max_len": n}, nshards=min(16, n + 1), crash_is_violation=True),
        Job("table-rel", "rel", "c15", n + 1, {"max_len": n}, nshards=min(16, n + 1), crash_is_violation=True),
    ]
    return {
        "level": "exploration",
        "exhaustive": True,
        "rule": "case 0 enumerates every cell of (combinator x receiver case {Fallthrough,Res(Ok),Res(Err)} x closure "
                "return case [x mutate]) for or_parse, or_always_parse, or_give_up, optional, matches, and_then, and_also, "
                "and_do, map, map_err, err_into, From<Result> and ResultExt::{err_into,and_also,and_do}; each cell compares "
                "returned value (identity-tagged), closure invocation count and received argument with a table written from "
                "the documentation. Cases k>=1 enumerate all token strings of length k-1 over {a,b,c,d,e,z} through a composed "
                "grammar and compare result and closure-invocation trace with a direct reference. Distinct = distinct cell "
                "names + distinct token strings of length >= 2; every cell is non-trivial (each is a different row of the "
                "specification). Run in the chk (debug assertions) and rel builds.",
        "jobs": jobs,
        "primary_jobs": ["table-chk"],
        "eval_counters": ["cells", "grammar_strings"],
        "floors": {"cells": 2 * 73, "distinct_nontrivial": 73},
        "assumptions": ["the specification table in harness/src/c15.rs is written from the rustdoc of flussab::Parsed/ResultExt"],
    }


def plan_C16(tier, seed):
    L = q(tier, 7, 9)
    total = sum(6 ** l for l in range(L + 1))
    ns = q(tier, 4000, 200000)
    jobs = [
        Job("enum-chk", "chk", "c16", total, {"mode": "enum", "max_len": L}, crash_is_violation=True),
        Job("enum-rel", "rel", "c16", total if tier == "thorough" else sum(6 ** l for l in range(6 + 1)),
            {"mode": "enum", "max_len": L}, crash_is_violation=True),
        Job("sampled-chk", "chk", "c16", ns, {"mode": "sampled"}, crash_is_violation=True),
        Job("sampled-rel", "rel", "c16", ns, {"mode": "sampled"}, crash_is_violation=True),
    ]
    return {
        "level": "exploration",
        "exhaustive": True,
        "rule": "enum: every string over {space,tab,CR,LF,'a','c'} of length <= %d x every start offset 0..len+1 x "
                "{tabs_or_spaces,newline,next_newline} and fixed(p) for p in {empty, every prefix up to 5 bytes of the rest, "
                "the same with last/first byte mutated, rest+'a', rest+CRLF}, each with a fresh reader under 1-byte reads and "
                "chunk size 1 (plus once with pre-buffered data and an advanced cursor); checked: returned offset == "
                "reference, position unchanged, bytes delivered by the source == max(delivered before, last index the "
                "reference must inspect + 1), read calls <= needed. sampled: random strings up to 19000 bytes, random "
                "offsets/patterns/chunk sizes/schedules (fixed, one-shot, random with Interrupted, two-part split); checked: "
                "offset, position, and that no successful read starts once the deciding byte is buffered. "
                "Non-trivial = the scanner passes over >= 1 byte or has to inspect beyond its start offset; distinct by hash "
                "of (string, offset, function, pattern, pre-buffer/schedule) - at most 200000 hashes per enum worker are "
                "stored, so the distinct count is a lower bound of the counter nontrivial_evals." % L,
        "jobs": jobs,
        "primary_jobs": ["enum-chk", "sampled-chk"],
        "eval_counters": ["evals_strict", "evals_loose"],
        "floors": {"evals_strict": q(tier, 20_000_000, 1_000_000_000), "evals_loose": q(tier, 100_000, 5_000_000),
                   "distinct_nontrivial": 100_000},
        "assumptions": ["reference semantics of the four helpers are taken from their rustdoc in flussab/src/text.rs"],
    }


def plan_C13(tier, seed):
    KL = q(tier, 6, 8)
    blocks = (sum(10 ** l for l in range(KL + 1)) + 99_999) // 100_000
    nb = q(tier, 60_000, 3_000_000)
    jobs = [
        Job("kernel-rel", "rel", "c13", blocks, {"mode": "kernel", "kernel_len": KL}, crash_is_violation=True),
        Job("kernel-chk", "chk", "c13", q(tier, 2, blocks), {"mode": "kernel", "kernel_len": KL}, crash_is_violation=True),
        Job("lanes-chk", "chk", "c13", q(tier, 18, 18 * 10), {"mode": "lanes"}, crash_is_violation=True),
        Job("lanes-rel", "rel", "c13", q(tier, 18, 18 * 10), {"mode": "lanes"}, crash_is_violation=True),
        Job("boundary-chk", "chk", "c13", nb, {"mode": "boundary"}, crash_is_violation=True),
        Job("boundary-rel", "rel", "c13", nb, {"mode": "boundary"}, crash_is_violation=True),
    ]
    if tier == "thorough":
        jobs.append(Job("boundary-miri", "miri-san", "c13", 320, {"mode": "boundary"}, nshards=16, crash_is_violation=True,
                        wall_limit=3000))
    return {
        "level": "exploration",
        "exhaustive": tier == "thorough",
        "rule": "kernel: every decimal digit string of length 0..%d, with and without a leading '-', followed by a "
                "terminator cycling through {space,LF,tab,'-',':','/','a',0x00,0xff}, scanned through the public _multi "
                "functions (i64,u64,i32,u32) with >= 8 bytes buffered (SWAR path) from one streaming reader - "
                "%s. lanes: for every count k=0..8 of digits before the terminator and every terminator byte 0..255, signed "
                "and unsigned, fully buffered (fast path) and with < 8 bytes buffered behind stale digits (cold path). "
                "boundary: per integer type (i8..i128,isize,u8..u128,usize) MIN, MAX, +-1 around them, 10^k+-1, 1..60 digits, "
                "0..30 leading zeros, '-0', lone '-', random digit-biased bytes; all four scanners; every amount 0..24 of "
                "buffered bytes (selects fast/cold path; the bytes behind the valid window are stale digits). Oracle: "
                "decimal-string reference (no machine arithmetic): Some(v) iff representable and v exact, offset = end of "
                "the run, lone '-' not consumed, position unchanged, multi == simple. Non-trivial = at least one byte is "
                "passed over; distinct by hash of (bytes, offset, type, buffered amount, stale prefix); kernel hashes are "
                "capped at 100000 per worker (lower bound)." % (KL, "complete enumeration" if tier == "thorough" else
                                                               "complete for lengths <= 6 in the quick tier"),
        "jobs": jobs,
        "primary_jobs": ["kernel-rel", "lanes-chk", "boundary-chk"],
        "eval_counters": ["kernel_evals", "evals"],
        "floors": {"kernel_evals": q(tier, 10_000_000, 1_000_000_000), "evals": q(tier, 1_000_000, 50_000_000),
                   "distinct_nontrivial": 100_000},
        "assumptions": ["signed scanners are also exercised with unsigned target types (property quantifies over all twelve types)"],
    }


def plan_C02(tier, seed):
    n = q(tier, 48_000, 2_000_000)
    jobs = [
        Job("hist-chk", "chk", "c02", n, {"max_ops": 600, "max_stream": 1 << 20}, crash_is_violation=True),
        Job("hist-rel", "rel", "c02", n, {"max_ops": 600, "max_stream": 1 << 20}, crash_is_violation=True),
    ]
    if tier == "thorough":
        jobs.append(Job("hist-asan", "asan", "c02", 200_000, {"max_ops": 400, "max_stream": 1 << 18}, crash_is_violation=True))
        jobs.append(Job("hist-miri", "miri-san", "c02", 160, {"max_ops": 120, "max_stream": 3000}, nshards=16,
                        crash_is_violation=True, wall_limit=3000))
    return {
        "level": "exploration",
        "rule": "random operation histories (50..600 ops drawn from request(n), request_byte, request_byte_at_offset(k), "
                "request_more, advance(n), advance_with_buf(n), set_mark, set_mark_to_position(p incl. near usize::MAX), "
                "set_chunk_size(1..65536), check_io_error) on a bare DeferredReader built via from_read / from_boxed_dyn_read / "
                "from_buf_reader(empty and partly consumed BufReader), over position-identifying zero-free streams of 0..1 MiB "
                "delivered under one-shot, fixed-k, two-part, random and random+Interrupted schedules ending in EOF, early EOF "
                "or a terminal error at a random offset. After EVERY operation: buf()==stream[cursor..delivered], buf_len, "
                "buf_ptr, position()==cursor, mark()==absolute offset it was set to, is_complete/is_at_end/io_error exactly "
                "as the source log says, short requests only after end/error, check_io_error reports once, and the read "
                "discipline (one successful read per request_more, none when satisfied, none after end). A history is "
                "non-trivial if it has >= 3 refills, >= 1 mark check more than 2*chunk bytes after the mark was set with a "
                "refill in between, and >= 1 short request; distinct by hash of (stream length, ops, read calls, final cursor, index).",
        "jobs": jobs,
        "primary_jobs": ["hist-chk"],
        "eval_counters": ["cases"],
        "floors": {"ops": q(tier, 10_000_000, 400_000_000), "refills": 1_000_000,
                   "mark_checks_far_after_refill": q(tier, 100_000, 1_000_000),
                   "variant:from_buf_reader(partly consumed)": 1000, "ended_err": 1000,
                   "interrupted_retries": 10_000, "distinct_nontrivial": q(tier, 3_000, 100_000)},
        "assumptions": ["position() wrap-around at 2^64 bytes cannot be driven; only set_mark_to_position exercises wrapping mark arithmetic"],
    }


def plan_C11(tier, seed):
    n = q(tier, 1600, 60_000)
    jobs = [
        Job("hist-chk", "chk", "c11", n, {"max_ops": 300, "max_faults": 24}, crash_is_violation=True),
        Job("hist-rel", "rel", "c11", n, {"max_ops": 300, "max_faults": 24}, crash_is_violation=True),
    ]
    if tier == "thorough":
        jobs.append(Job("hist-asan", "asan", "c11", 8000, {"max_ops": 200, "max_faults": 8}, crash_is_violation=True))
        jobs.append(Job("hist-miri", "miri-san", "c11", 48, {"max_ops": 14, "max_faults": 2}, nshards=16,
                        crash_is_violation=True, wall_limit=3000))
    return {
        "level": "exploration",
        "rule": "generated operation histories (5..300 ops: Write::write / write_all / write_all_defer_err of 0..3*capacity "
                "bytes biased around capacity+-40, write::text::ascii_digits for all twelve integer types with boundary-heavy "
                "values, buf_write_ptr(n)+advance_unchecked(m<=n), flush, flush_defer_err, check_io_error, drop) on a real "
                "DeferredWriter. Each history runs once over a non-failing sink (accept-all / short writes / short+Interrupted) "
                "and then once per sink write call j that occurred (all j up to 24, sampled beyond) with the sink failing (or "
                "returning Ok(0)) at call j, sometimes with a second failure later. Judged after every operation from the "
                "merged client/sink log: non-failing - sink contents are always a prefix of the written stream and equal to "
                "it after every flush and after drop, flush returns Ok; failing - write calls succeed, no sink call between a "
                "failure and its report, the report comes from the next flush/check_io_error exactly once, later data "
                "arrives again, every accepted piece continues an in-order duplicate-free selection of the written stream "
                "(earliest-match per piece); buf_write_ptr(n) is non-null iff n more bytes fit. A run is non-trivial if the "
                "sink saw >= 2 write calls and more than one buffer capacity was written; distinct by hash of (index, sink "
                "calls, fault position, bytes written).",
        "jobs": jobs,
        "primary_jobs": ["hist-chk"],
        "eval_counters": ["runs"],
        "floors": {"runs": q(tier, 20_000, 800_000), "sink_failures_injected": q(tier, 10_000, 400_000),
                   "ints_via_cold_path": 1000, "buf_write_ptr_nonnull": 10_000, "int_type:i128": 1000, "int_type:u8": 1000,
                   "distinct_nontrivial": q(tier, 10_000, 300_000)},
        "assumptions": ["the writer's capacity is learnt through buf_write_ptr on a fresh writer, not assumed"],
    }


def plan_C14(tier, seed):
    nr, nw = q(tier, 16_000, 600_000), q(tier, 1600, 40_000)
    jobs = [
        # behavioural half, both assertion settings
        Job("reader-chk", "chk", "c14r", nr, {"max_ops": 400, "max_stream": 1 << 18}, crash_is_violation=True),
        Job("reader-rel", "rel", "c14r", nr, {"max_ops": 400, "max_stream": 1 << 18}, crash_is_violation=True),
        Job("writer-chk", "chk", "c14w", nw, {"max_ops": 200}, crash_is_violation=True),
        Job("writer-rel", "rel", "c14w", nw, {"max_ops": 200}, crash_is_violation=True),
        # sanitizer half: AddressSanitizer (debug assertions off) and Miri (assertions off and on)
        Job("reader-asan", "asan", "c14r", q(tier, 8_000, 400_000), {"max_ops": 300, "max_stream": 1 << 16}, crash_is_violation=True),
        Job("writer-asan", "asan", "c14w", q(tier, 800, 20_000), {"max_ops": 150}, crash_is_violation=True),
        Job("reader-miri", "miri-san", "c14r", q(tier, 32, 640), {"max_ops": 90, "max_stream": 2000}, nshards=16,
            crash_is_violation=True, wall_limit=3000),
        Job("writer-miri", "miri-san", "c14w", q(tier, 16, 160), {"max_ops": 12}, nshards=16,
            crash_is_violation=True, wall_limit=3000),
    ]
    if tier == "thorough":
        jobs.append(Job("reader-miri-chk", "miri-chk", "c14r", 320, {"max_ops": 90, "max_stream": 2000}, nshards=16,
                        crash_is_violation=True, wall_limit=3000))
        jobs.append(Job("reader-memcheck", "rel", "c14r", 1600, {"max_ops": 200, "max_stream": 1 << 14}, nshards=16,
                        crash_is_violation=True, valgrind=True, wall_limit=3000))
        jobs.append(Job("writer-memcheck", "rel", "c14w", 160, {"max_ops": 100}, nshards=16,
                        crash_is_violation=True, valgrind=True, wall_limit=3000))
    return {
        "level": "exploration",
        "rule": "the C02 reader histories and C11 writer histories extended with hostile steps, every one wrapped in "
                "catch_unwind and followed by ordinary operations: advance(n)/advance_with_buf(n) with n from buf_len()+1 up "
                "to usize::MAX, sources that return more bytes than the slice they were given, sources that panic, sinks "
                "that panic (then more writes, flushes and drop). Behavioural oracle: after a caught panic buf_len(), buf() "
                "content, position() and mark() are the model's state from before the failed call (length compared first so a "
                "wild slice is reported, not read); nothing beyond what the source really delivered is exposed (streams are "
                "position-identifying and zero-free, so zero fill or stale bytes cannot pass). Sanitizer oracle: the same "
                "histories, content reads included, under AddressSanitizer (debug assertions off, so a broken invariant "
                "reaches get_unchecked/set_len) and under Miri; any sanitizer report, abort or signal is attributed to the "
                "journalled history and is a violation. A history is non-trivial if >= 1 panic was caught and >= 2 refills "
                "happened (reader) or the sink saw >= 2 calls over more than one capacity (writer).",
        "jobs": jobs,
        "primary_jobs": ["reader-chk", "writer-chk"],
        "eval_counters": ["cases"],
        "floors": {"panics_caught": q(tier, 100_000, 3_000_000), "lying_reads": q(tier, 2_000, 50_000),
                   "distinct_nontrivial": q(tier, 5_000, 100_000)},
        "assumptions": ["red-zone tools and Miri do not see an access that stays inside the reader's own Vec but outside the valid window; that case is covered only by the behavioural (content) oracle"],
    }
