#!/bin/sh
# Builds the harness flavours used by the quick checks (offline). Each check rebuilds
# incrementally from /repo's current working tree on its own, so this is only a warm-up.
set -e
cd "$(dirname "$0")"
export CARGO_NET_OFFLINE=true
./check --build chk rel
