#!/usr/bin/env python3
"""Verify and store a breaking change written by a sub-agent.

  tools/ingest.py <Cxx> <short-name> "<what it needs to manifest>" [--keep]

Looks at /tmp/sa-<Cxx>/{repo (worktree with the change applied), patch.diff, demo/, NOTES.md}; confirms
that (1) the patch is what the worktree contains and applies to /repo's HEAD, (2) the repository's
tests pass with it, (3) the demo fails with it and passes without it; then stores it as
/verif/seeded/<Cxx>-<short-name>/ and removes the scratch worktree with its build output.
"""
import json, os, subprocess, sys, shutil, re
VERIF = os.path.dirname(os.path.dirname(os.path.abspath(__file__)))


def sh(cmd, **kw):
    return subprocess.run(cmd, shell=True, text=True, capture_output=True, **kw)


def run_demo(d, env):
    demo = os.path.join(d, "demo")
    rel = " --release" if os.environ.get("INGEST_RELEASE") else ""
    if os.path.exists(os.path.join(demo, "src", "main.rs")):
        r = sh("cargo run --offline --quiet%s 2>&1 | tail -5" % rel, cwd=demo, env=env)
        rc = sh("cargo run --offline --quiet%s >/dev/null 2>&1; echo $?" % rel, cwd=demo, env=env).stdout.strip()
    else:
        r = sh("cargo test --offline --quiet 2>&1 | tail -5", cwd=demo, env=env)
        rc = sh("cargo test --offline --quiet >/dev/null 2>&1; echo $?", cwd=demo, env=env).stdout.strip()
    return int(rc), r.stdout[-600:]


def main():
    prop, name, needs = sys.argv[1], sys.argv[2], sys.argv[3]
    keep = "--keep" in sys.argv
    d = ("/tmp/sn-" if "--round14" in sys.argv else "/tmp/sm-" if "--round13" in sys.argv else "/tmp/sl-" if "--round12" in sys.argv else "/tmp/sk-" if "--round11" in sys.argv else "/tmp/sj-" if "--round10" in sys.argv else "/tmp/si-" if "--round9" in sys.argv else "/tmp/sh-" if "--round8" in sys.argv else "/tmp/sg-" if "--round7" in sys.argv else "/tmp/sf-" if "--round6" in sys.argv else "/tmp/se-" if "--round5" in sys.argv else "/tmp/sd-" if "--round4" in sys.argv else "/tmp/sc-" if "--round3" in sys.argv else "/tmp/sb-" if "--round2" in sys.argv else "/tmp/sa-") + prop
    repo = d + "/repo"
    env = dict(os.environ, CARGO_TARGET_DIR=d + "/target", CARGO_NET_OFFLINE="true", RUST_BACKTRACE="0")
    if os.path.exists(d + "/patch.diff") and open(d + "/patch.diff").read().strip():
        # the agent's patch.diff is the reference (a worktree may have caught a foreign change through a shared stash)
        sh("git -C %s checkout -- ." % repo)
        a = sh("git -C %s apply %s/patch.diff" % (repo, d))
        if a.returncode:
            print("cannot apply patch.diff", a.stderr); sys.exit(1)
    diff = sh("git -C %s diff" % repo).stdout
    if not diff.strip():
        print("worktree has no change applied; trying patch.diff")
        a = sh("git -C %s apply %s/patch.diff" % (repo, d))
        if a.returncode:
            print("cannot apply", a.stderr); sys.exit(1)
        diff = sh("git -C %s diff" % repo).stdout
    files = re.findall(r"^diff --git a/(\S+)", diff, re.M)
    if any(("/tests" in f or f.endswith("tests.rs")) for f in files):
        print("REJECT: touches tests", files); sys.exit(1)
    chk = sh("git -C /repo apply --check -", input=diff)
    if chk.returncode:
        print("REJECT: does not apply to /repo HEAD:", chk.stderr[:300]); sys.exit(1)
    t = sh("cargo test --workspace --offline 2>&1 | grep -E '^test result|error' ", cwd=repo, env=env)
    lines = t.stdout.strip().splitlines()
    tests_ok = bool(lines) and all(l.startswith("test result: ok") for l in lines)
    npass = sum(int(re.search(r"(\d+) passed", l).group(1)) for l in lines if "passed" in l)
    print("repo tests with patch:", "PASS" if tests_ok else "FAIL", npass, "passed")
    rc_with, out_with = run_demo(d, env)
    # not `git stash`: the stash is shared by all worktrees of /repo and concurrent users swap their changes
    open(d + "/ingest.diff", "w").write(diff)
    sh("git -C %s checkout -- ." % repo)
    rc_without, out_without = run_demo(d, env)
    sh("git -C %s apply %s/ingest.diff" % (repo, d))
    print("demo with patch: exit", rc_with, "| without: exit", rc_without)
    ok = tests_ok and rc_with != 0 and rc_without == 0
    if not ok:
        print("REJECT: not confirmed\n--- with:\n%s\n--- without:\n%s" % (out_with, out_without)); sys.exit(1)
    dst = os.path.join(VERIF, "seeded", "%s-%s" % (prop, name))
    shutil.rmtree(dst, ignore_errors=True)
    os.makedirs(dst)
    open(os.path.join(dst, "patch.diff"), "w").write(diff)
    shutil.copytree(os.path.join(d, "demo"), os.path.join(dst, "demo"), ignore=shutil.ignore_patterns("target", "*.lock"))
    # make the demo relocatable: path dependencies point at @REPO@
    for root, _, fs in os.walk(os.path.join(dst, "demo")):
        for f in fs:
            if f == "Cargo.toml":
                p = os.path.join(root, f)
                open(p, "w").write(open(p).read().replace(repo, "@REPO@"))
    if os.path.exists(d + "/NOTES.md"):
        shutil.copy(d + "/NOTES.md", dst + "/NOTES.md")
    meta = {"properties": [prop], "name": name, "needs_to_manifest": needs, "files_changed": files,
            "origin": "independent sub-agent given only the property text and a scratch worktree of /repo",
            "confirmed": {"repo_tests_pass_with_patch": True, "tests_passed": npass, "demo_exit_with_patch": rc_with,
                          "demo_exit_without_patch": rc_without,
                          "commands": ["cargo test --workspace --offline (in the patched worktree)",
                                       "cargo run|test --offline in demo/ with the patch (fails) and with the patch stashed (passes)"],
                          "demo_output_with_patch": out_with[-300:]},
            "demo_usage": "replace @REPO@ in demo/Cargo.toml by a checkout of jix/flussab with patch.diff applied; copy its Cargo.lock next to it"}
    json.dump(meta, open(os.path.join(dst, "meta.json"), "w"), indent=1)
    print("stored", dst)
    if not keep:
        sh("git -C /repo worktree remove --force %s" % repo)
        shutil.rmtree(d, ignore_errors=True)
        sh("git -C /repo worktree prune")


if __name__ == "__main__":
    main()
