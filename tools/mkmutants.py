#!/usr/bin/env python3
"""Generates the hand-written mutant catalogue (mutants/m-*.diff) from textual replacements against
/repo's HEAD. Each entry: (name, properties it must break, file, old, new[, count]). The patches are
never applied to /repo; tools/selftest.py runs them in a scratch worktree."""
import os, subprocess, sys, json, tempfile, shutil

VERIF = os.path.dirname(os.path.dirname(os.path.abspath(__file__)))
R = "flussab/src/deferred_reader.rs"
W = "flussab/src/deferred_writer.rs"
T = "flussab/src/text.rs"
WT = "flussab/src/write/text.rs"
P = "flussab/src/parser.rs"
CT = "flussab-cnf/src/token.rs"
CNF = "flussab-cnf/src/cnf.rs"
WCNF = "flussab-cnf/src/wcnf.rs"
LOG = "flussab-cnf/src/sat_solver_log.rs"
AT = "flussab-aiger/src/token.rs"
AA = "flussab-aiger/src/ascii.rs"
AB = "flussab-aiger/src/binary.rs"
AG = "flussab-aiger/src/aig.rs"
BT = "flussab-btor2/src/token.rs"
BB = "flussab-btor2/src/btor2.rs"

M = [
    ("swar-guard-7", "C13,C01", T, "    if reader.buf_len().saturating_sub(offset) < 8 {\n        return ascii_digits_multi_cold(reader, offset);", "    if reader.buf_len().saturating_sub(offset) < 7 {\n        return ascii_digits_multi_cold(reader, offset);"),
    ("request-byte-cold-lt", "C02", R, "        while self.valid_len <= offset {\n            if !self.request_more()", "        while self.valid_len < offset {\n            if !self.request_more()"),
    ("no-interrupted-retry", "C01,C02", R, "                Err(err) if err.kind() == io::ErrorKind::Interrupted => continue,\n", ""),
    ("realign-no-pos-of-buf", "C02,C08", R, "            self.pos_of_buf = self.pos_of_buf.wrapping_add(self.pos_in_buf);\n", ""),
    ("bufreader-drops-buffered", "C02", R, "        if buf_data.is_empty() {", "        if true {"),
    ("shrink-too-eager", "C02,C01", R, "if self.buf.len() > 4 * (self.pos_in_buf + self.valid_len + self.chunk_size) {", "if self.buf.len() > self.pos_in_buf + self.valid_len + self.chunk_size {"),
    ("no-read-assert", "C14", R, "                    assert!(\n                        n <= self.chunk_size,\n                        \"invariant of std::io::Read trait violated\"\n                    );\n", ""),
    ("aag-header-drops-field", "C03", AA, "            if rest.len() >= 5 {\n                fields = rest;", "            if rest.len() >= 4 {\n                fields = rest;"),
    ("aag-latch-reset-swapped", "C03", AA, "            Some(true) => self.writer.write_all_defer_err(b\" 1\\n\"),\n            Some(false) => self.writer.write_all_defer_err(b\"\\n\"),", "            Some(false) => self.writer.write_all_defer_err(b\" 1\\n\"),\n            Some(true) => self.writer.write_all_defer_err(b\"\\n\"),"),
    ("aig-varint-last-group", "C03", AB, "            bytes[len] = (code as u8) | 0x80;\n            code >>= 7;", "            bytes[len] = (code as u8) | 0x80;\n            code = if len == 7 { code >> 8 } else { code >> 7 };"),
    ("btor-ugt-misspelt", "C03", BB, "            BinaryOp::Ugt => \"ugt\",", "            BinaryOp::Ugt => \"ugte\","),
    ("cnf-eof-ignores-io-error", "C04", CT, "    if input.reader.request_byte().is_none() && input.reader.io_error().is_none() {", "    if input.reader.request_byte().is_none() {"),
    ("aiger-eof-ignores-io-error", "C04", AT, "    if input.reader.request_byte().is_none() && input.reader.io_error().is_none() {", "    if input.reader.request_byte().is_none() {"),
    ("btor-eof-ignores-io-error", "C04", BT, "    if input.reader.request_byte().is_none() && input.reader.io_error().is_none() {", "    if input.reader.request_byte().is_none() {"),
    ("aag-symbol-no-count-guard", "C05", AA, "        let target = if self.parser.header.input_count > 0 {\n            token::fixed(input, b\"i\")\n        } else {\n            Fallthrough\n        }", "        let target = token::fixed(input, b\"i\")"),
    ("log-no-range-check", "C06", LOG, "                if (-L::MAX_DIMACS..=L::MAX_DIMACS).contains(&lit) {", "                if true {"),
    ("aiger-lit-limit-plus-one", "C06", AT, "            } else if count > limit {\n                Err(exceeds_count(\n                    input,\n                    name,\n                    \"maximum literal\",", "            } else if count > limit + 1 {\n                Err(exceeds_count(\n                    input,\n                    name,\n                    \"maximum literal\","),
    ("wcnf-eof-ignores-clause-count", "C06", WCNF, "            if (!self.clause_limit_active || self.clause_count >= self.clause_limit)\n                && token::eof(input).matches()?", "            if token::eof(input).matches()?"),
    ("aig-delta-check-removed", "C06,C05", AT, "    if delta > code {\n        return delta_code_err(input, code, delta, target, reference);\n    }\n\n    Ok(code - delta)", "    Ok(code.wrapping_sub(delta))"),
    ("digits-cont-ignores-overflow", "C13,C06", T, "fn ascii_digits_cont_pos<I>(\n    reader: &mut DeferredReader,\n    mut offset: usize,\n    value: Option<I>,\n) -> (Option<I>, usize)\nwhere\n    I: Zero + FromPrimitive + OverflowingAdd + OverflowingMul,\n{\n    #![allow(clippy::or_fun_call)]\n    let mut overflow = value.is_none();", "fn ascii_digits_cont_pos<I>(\n    reader: &mut DeferredReader,\n    mut offset: usize,\n    value: Option<I>,\n) -> (Option<I>, usize)\nwhere\n    I: Zero + FromPrimitive + OverflowingAdd + OverflowingMul,\n{\n    #![allow(clippy::or_fun_call)]\n    let mut overflow = false;"),
    ("wcnf-no-split-after-weight", "C07", WCNF, "                    let input = &mut self.reader;\n                    token::non_terminating_linebreaks(input)?;\n", "                    let input = &mut self.reader;\n"),
    ("log-skip-ws-after-v-removed", "C07", LOG, "            token::skip_whitespace(input);\n\n            assignment_started = true;", "            assignment_started = true;"),
    ("column-without-plus-one", "C08", T, "                column: position - self.line_start + 1,", "                column: position - self.line_start,"),
    ("clause-lits-mark-not-moved", "C08", CT, "                    lits.push(L::from_dimacs(lit));\n                } else {\n                    return Err(exceeds_var_count(input, \"literal\", lit, limit, hard_limit));\n                }\n\n                input.reader.set_mark();", "                    lits.push(L::from_dimacs(lit));\n                } else {\n                    return Err(exceeds_var_count(input, \"literal\", lit, limit, hard_limit));\n                }\n"),
    ("aiger-newline-or-space-no-line-count", "C08", AT, "        if matches!(byte, Some(b'\\n')) {\n            input.line_at_offset(0);\n            Ok(false)", "        if matches!(byte, Some(b'\\n')) {\n            Ok(false)"),
    ("cnf-eol-not-interactive", "C09", CT, "pub fn interactive_end_of_line(input: &mut LineReader) -> Parsed<(), ParseError> {\n    interactive_newline(input).or_parse(|| eof(input))", "pub fn interactive_end_of_line(input: &mut LineReader) -> Parsed<(), ParseError> {\n    newline(input).or_parse(|| eof(input))"),
    ("request-more-fills-chunk", "C09,C02", R, "                    self.valid_len += n\n                }", "                    self.valid_len += n;\n                    if self.pos_in_buf + self.valid_len < target_end {\n                        continue;\n                    }\n                }"),
    ("btor-newline-skips-ahead", "C09", BT, "pub fn newline(input: &mut LineReader) -> Parsed<(), ParseError> {\n    if matches!(input.reader.request_byte(), Some(b'\\n')) {\n        input.reader.advance(1);\n        input.line_at_offset(0);\n        Res(Ok(()))", "pub fn newline(input: &mut LineReader) -> Parsed<(), ParseError> {\n    if matches!(input.reader.request_byte(), Some(b'\\n')) {\n        input.reader.advance(1);\n        input.line_at_offset(0);\n        skip_whitespace(input);\n        Res(Ok(()))"),
    ("never-realign", "C10", R, "        let realign = self.pos_in_buf > self.chunk_size * 2;", "        let realign = self.pos_in_buf > usize::MAX / 2 && self.chunk_size > 0;"),
    ("resize-grows-by-chunk", "C10", R, "            self.buf.resize(target_end, 0);", "            self.buf.resize(self.buf.len() + self.chunk_size, 0);"),
    ("writer-direct-before-flush", "C11", W, "        // This will leaves us an empty buffer, even if an IO error occured.\n        self.flush_defer_err();\n\n        if buf.len() < self.buf.capacity() {\n            self.buf.extend_from_slice(buf);\n        } else {", "        if buf.len() < self.buf.capacity() {\n            self.flush_defer_err();\n            self.buf.extend_from_slice(buf);\n        } else {"),
    ("writer-error-reported-twice", "C11", W, "    pub fn check_io_error(&mut self) -> io::Result<()> {\n        if let Some(err) = self.io_error.take() {\n            Err(err)", "    pub fn check_io_error(&mut self) -> io::Result<()> {\n        if let Some(err) = self.io_error.as_ref() {\n            Err(io::Error::new(err.kind(), \"deferred\"))"),
    ("writer-flush-while-parked", "C11", W, "        // Silently discard data if we errored before but haven't reported it yet\n        if self.io_error.is_none() {\n            self.panicked = true;\n            if let Err(err) = self.write.write_all(&self.buf) {", "        // Silently discard data if we errored before but haven't reported it yet\n        if self.io_error.is_none() || self.buf.len() > 100 {\n            self.panicked = true;\n            if let Err(err) = self.write.write_all(&self.buf) {"),
    ("digits-fast-path-too-little-room", "C14,C11", WT, "    let ptr = writer.buf_write_ptr(I::MAX_LEN);", "    let ptr = writer.buf_write_ptr(I::MAX_LEN / 2);"),
    ("renumber-polarity-dropped", "C12", AG, "                        transferred: L::from_code(new_code ^ lit.code() ^ def.output.code()),", "                        transferred: L::from_code(new_code ^ (lit.code() & 0)),"),
    ("renumber-constfold-wrong", "C12", AG, "                        } else if codes[1] == 1 {\n                            folded = Some(def.inputs[0]);", "                        } else if codes[1] == 1 {\n                            folded = Some(def.inputs[1]);"),
    ("renumber-sort-reversed", "C12", AG, "                    def.inputs.sort_unstable_by_key(|input| !input.code());", "                    def.inputs.sort_unstable_by_key(|input| input.code());"),
    ("renumber-cycle-check-frame0", "C12", AG, "                    match self.stack.get(self.stack.len() / 2) {", "                    match self.stack.get(0) {"),
    ("swar-constant", "C13", T, "    let low_nibble_matches = low_nibbles.wrapping_add(0x0606060606060606);", "    let low_nibble_matches = low_nibbles.wrapping_add(0x0606060606060605);"),
    ("signed-cont-at-8", "C13", T, "        if matching_digits == 7 {\n            return ascii_digits_cont_neg(reader, offset + 8, value);", "        if matching_digits == 8 {\n            return ascii_digits_cont_neg(reader, offset + 8, value);"),
    ("signed-consumes-lone-minus", "C13", T, "            offset + ((matching_digits != 0) as usize) + matching_digits,", "            offset + 1 + matching_digits,"),
    ("and-also-falls-through", "C15", P, "            if let Err(err) = res {\n                return Res(Err(err));\n            }", "            if let Err(_err) = res {\n                return Fallthrough;\n            }"),
    ("optional-swallows-error", "C15", P, "            Res(Ok(value)) => Ok(Some(value)),\n            Res(Err(err)) => Err(err),\n            Fallthrough => Ok(None),", "            Res(Ok(value)) => Ok(Some(value)),\n            Res(Err(_)) => Ok(None),\n            Fallthrough => Ok(None),"),
    ("result-and-do-on-err", "C15", P, "    fn and_do(mut self, action: impl FnOnce(&mut T)) -> Result<T, E> {\n        if let Ok(value) = &mut self {\n            action(value);\n        }\n        self", "    fn and_do(mut self, action: impl FnOnce(&mut T)) -> Result<T, E> {\n        if let Ok(value) = &mut self {\n            action(value);\n            action_done();\n        }\n        self"),
    ("fixed-reads-whole-pattern", "C16", T, "    for (i, &byte) in fixed.iter().enumerate() {\n        if input.request_byte_at_offset(offset + i) != Some(byte) {\n            return offset;\n        }\n    }\n    offset + fixed.len()", "    let mut ok = true;\n    for (i, &byte) in fixed.iter().enumerate() {\n        if input.request_byte_at_offset(offset + i) != Some(byte) {\n            ok = false;\n        }\n    }\n    if ok {\n        offset + fixed.len()\n    } else {\n        offset\n    }"),
    ("newline-lone-cr", "C16", T, "        Some(b'\\r') if matches!(input.request_byte_at_offset(offset + 1), Some(b'\\n')) => {\n            offset + 2\n        }", "        Some(b'\\r') if matches!(input.request_byte_at_offset(offset + 1), Some(b'\\n') | None) => {\n            offset + 2\n        }"),
    ("aag-skip-latches-consumes-one", "C03,C06", AA, "        while self.latches_left != 0 {\n            self.next_latch()?;\n        }\n\n        Ok(ParseOutputs {", "        if self.latches_left != 0 {\n            self.next_latch()?;\n        }\n\n        Ok(ParseOutputs {"),
    ("aig-skip-outputs-consumes-one", "C03,C06", AB, "        while self.outputs_left != 0 {\n            self.next_output()?;\n        }\n", "        if self.outputs_left != 0 {\n            self.next_output()?;\n        }\n"),
    ("from-ordered-latch-base", "C03", AG, "        let first_latch = 1 + ordered.input_count;", "        let first_latch = ordered.input_count;"),
    ("litmap-contains-key-polarity", "C12", AG, "        self.map.contains_key(&L::from_code(lit.code() & !1))", "        self.map.contains_key(&lit)"),
    ("advance-unchecked-keeps-valid-len", "C02", R, "        debug_assert!(self.valid_len >= n);\n        self.valid_len -= n;\n        self.pos_in_buf += n;", "        debug_assert!(self.valid_len >= n);\n        self.pos_in_buf += n;"),
    ("next-newline-peeks-past", "C16,C09", T, "    offset + input.request_byte_at_offset(offset).is_some() as usize", "    let r = offset + input.request_byte_at_offset(offset).is_some() as usize;\n    let _ = input.request_byte_at_offset(r);\n    r"),
]


def main():
    out = os.path.join(VERIF, "mutants")
    os.makedirs(out, exist_ok=True)
    tmp = tempfile.mkdtemp(prefix="mkmut")
    index = []
    try:
        for e in M:
            name, props, path, old, new = e[:5]
            if name == "result-and-do-on-err":
                continue  # placeholder that does not compile; kept out of the catalogue
            src = subprocess.run(["git", "-C", "/repo", "show", "HEAD:" + path], capture_output=True, text=True).stdout
            n = src.count(old)
            if n != 1:
                print("SKIP %s: pattern occurs %d times in %s" % (name, n, path))
                continue
            a = os.path.join(tmp, "a", path)
            b = os.path.join(tmp, "b", path)
            for p, content in ((a, src), (b, src.replace(old, new))):
                os.makedirs(os.path.dirname(p), exist_ok=True)
                open(p, "w").write(content)
            d = subprocess.run(["diff", "-u", "--label", "a/" + path, "--label", "b/" + path, a, b], capture_output=True, text=True).stdout
            open(os.path.join(out, "m-%s.diff" % name), "w").write(d)
            index.append({"name": "m-%s" % name, "properties": props.split(","), "file": path})
        json.dump(index, open(os.path.join(out, "catalogue.json"), "w"), indent=1)
        print("wrote", len(index), "mutants")
    finally:
        shutil.rmtree(tmp, ignore_errors=True)


if __name__ == "__main__":
    main()
