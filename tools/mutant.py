#!/usr/bin/env python3
"""Run registered checks against a mutated scratch copy of the repository (never touches /repo).

  tools/mutant.py <patch.diff> <Cxx>[,Cyy...] [--tier quick] [--tests] [--keep]
  tools/mutant.py --cleanup

A git worktree of /repo's HEAD is kept under /tmp/fvh-mut/repo (with its own cargo target dir under
/tmp/fvh-mut) while mutants are being tried; `--cleanup` removes both. Prints one line per check:
  MUTANT <patch> <Cxx> -> caught (exit 1) | MISSED (exit 0) | inconclusive (exit 2)
"""
import os, subprocess, sys, shutil

ROOT = os.environ.get("VERIF_MUT_ROOT", "/tmp/fvh-mut")
WT = ROOT + "/repo"
VERIF = os.path.dirname(os.path.dirname(os.path.abspath(__file__)))


def sh(cmd, **kw):
    return subprocess.run(cmd, shell=True, text=True, capture_output=True, **kw)


def ensure():
    os.makedirs(ROOT, exist_ok=True)
    head = sh("git -C /repo rev-parse HEAD").stdout.strip()
    if not os.path.exists(WT):
        r = sh("git -C /repo worktree add --detach %s HEAD" % WT)
        if r.returncode:
            print(r.stderr); sys.exit(2)
    else:
        sh("git -C %s checkout -q --detach %s" % (WT, head))
    sh("git -C %s checkout -- . && git -C %s clean -fdq -e target" % (WT, WT))
    shutil.copy("/repo/Cargo.lock", WT + "/Cargo.lock")


def cleanup():
    sh("git -C /repo worktree remove --force %s" % WT)
    shutil.rmtree(ROOT, ignore_errors=True)
    sh("git -C /repo worktree prune")


def main():
    a = sys.argv[1:]
    if a and a[0] == "--cleanup":
        cleanup(); return
    patch = os.path.abspath(a[0]); props = a[1].split(",")
    tier = "quick"; tests = False
    if "--tier" in a: tier = a[a.index("--tier") + 1]
    if "--tests" in a: tests = True
    ensure()
    r = sh("git -C %s apply %s" % (WT, patch))
    if r.returncode:
        print("patch does not apply:", r.stderr); sys.exit(2)
    env = dict(os.environ, VERIF_REPO=WT, VERIF_TARGET_DIR=ROOT + "/target", VERIF_NO_EVIDENCE="1",
               CARGO_NET_OFFLINE="true")
    if tests:
        t = subprocess.run("cargo test --workspace --offline 2>&1 | grep -E '^test result|FAILED|panicked' | head -20",
                           shell=True, cwd=WT, text=True, capture_output=True,
                           env=dict(os.environ, CARGO_TARGET_DIR=ROOT + "/target-tests", CARGO_NET_OFFLINE="true"))
        print(t.stdout)
    rc_all = 0
    for p in props:
        r = subprocess.run([VERIF + "/check", p, "--tier", tier], env=env, text=True, capture_output=True, cwd=VERIF)
        verdict = {0: "MISSED (exit 0)", 1: "caught (exit 1)", 2: "inconclusive (exit 2)"}.get(r.returncode, "exit %d" % r.returncode)
        print("MUTANT %s %s -> %s" % (os.path.basename(patch), p, verdict))
        lines = [l for l in (r.stdout + r.stderr).splitlines() if l.startswith(("VIOLATION", "INCONCLUSIVE", "  kind", "  inconclusive", "["))]
        for l in lines[:8]:
            print("   ", l[:400])
        if r.returncode != 1:
            rc_all = 1
    sh("git -C %s checkout -- ." % WT)
    sys.exit(rc_all)


if __name__ == "__main__":
    main()
