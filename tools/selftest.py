#!/usr/bin/env python3
"""Mutation self-test: every patch of mutants/ is applied to a scratch worktree of /repo (never to
/repo), the repository's own tests are run on it (a realistic change must still pass them), and
the quick check of every tagged property must exit 1 with a VIOLATION line.

  tools/selftest.py [name-substring ...]     results -> mutants/RESULTS.json (merged)
"""
import json, os, subprocess, sys, shutil, time
VERIF = os.path.dirname(os.path.dirname(os.path.abspath(__file__)))
sys.path.insert(0, os.path.join(VERIF, "tools"))
import mutant

REVERTS = {"revert-D1": ["C02", "C01", "C08"], "revert-D2": ["C14"], "revert-D3": ["C05", "C03"], "revert-D4": ["C03"],
           "revert-D5": ["C05", "C08"], "revert-D6": ["C04"], "revert-D7": ["C05"], "revert-D8": ["C05", "C08"],
           "revert-D9": ["C04"], "revert-D10": ["C03"], "revert-D11": ["C12"], "revert-D12": ["C13"],
           "revert-D13": ["C03"], "revert-D14": ["C05"], "revert-D15": ["C13", "C14"]}


def main():
    sel = sys.argv[1:]
    cat = json.load(open(os.path.join(VERIF, "mutants", "catalogue.json")))
    entries = [(c["name"], c["properties"]) for c in cat] + list(REVERTS.items())
    seeded = os.path.join(VERIF, "seeded")
    if os.path.isdir(seeded):
        for d in sorted(os.listdir(seeded)):
            meta = os.path.join(seeded, d, "meta.json")
            if os.path.exists(meta):
                m = json.load(open(meta))
                entries.append(("seeded/" + d, m["properties"]))
    if sel:
        entries = [e for e in entries if any(s in e[0] for s in sel)]
    respath = os.environ.get("SELFTEST_RESULTS") or os.path.join(VERIF, "mutants", "RESULTS.json")
    results = json.load(open(respath)) if os.path.exists(respath) else {}
    env = dict(os.environ, VERIF_REPO=mutant.WT, VERIF_TARGET_DIR=mutant.ROOT + "/target", VERIF_NO_EVIDENCE="1",
               CARGO_NET_OFFLINE="true")
    for name, props in entries:
        patch = os.path.join(VERIF, name, "patch.diff") if name.startswith("seeded/") else os.path.join(VERIF, "mutants", name + ".diff")
        mutant.ensure()
        r = mutant.sh("git -C %s apply %s" % (mutant.WT, patch))
        if r.returncode:
            print("%-40s patch does not apply: %s" % (name, r.stderr.strip()[:200]))
            results[name] = {"applies": False}
            continue
        t = subprocess.run("cargo test --workspace --offline 2>&1 | grep -E '^test result|error(\\[|:)' | head -20",
                           shell=True, cwd=mutant.WT, text=True, capture_output=True,
                           env=dict(os.environ, CARGO_TARGET_DIR=mutant.ROOT + "/target-tests", CARGO_NET_OFFLINE="true"))
        lines = t.stdout.strip().splitlines()
        tests_pass = bool(lines) and all(l.startswith("test result: ok") for l in lines)
        res = {"applies": True, "repo_tests_pass": tests_pass, "checks": {}}
        for p in props:
            t0 = time.time()
            c = subprocess.run([VERIF + "/check", p, "--tier", "quick"], env=env, text=True, capture_output=True, cwd=VERIF)
            first = [l for l in (c.stdout + c.stderr).splitlines() if l.startswith(("  kind", "INCONCLUSIVE"))][:1]
            res["checks"][p] = {"exit": c.returncode, "wall_s": round(time.time() - t0, 1), "first": (first[0][:300] if first else "")}
        results[name] = res
        verdicts = " ".join("%s:%s" % (p, {0: "MISSED", 1: "caught", 2: "inconclusive"}.get(v["exit"], v["exit"])) for p, v in res["checks"].items())
        print("%-40s repo-tests:%s  %s" % (name, "pass" if tests_pass else "FAIL", verdicts), flush=True)
        json.dump(results, open(respath, "w"), indent=1, sort_keys=True)
    mutant.sh("git -C %s checkout -- ." % mutant.WT)


if __name__ == "__main__":
    main()
