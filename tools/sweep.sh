#!/bin/sh
# silence sweep: every quick (or thorough) check at several seeds; prints one line per run
# usage: tools/sweep.sh quick "1 2 3 4 5" [props...]
cd "$(dirname "$0")/.."
tier=${1:-quick}; seeds=${2:-"1 2 3"}; shift 2 2>/dev/null
props=${*:-"C01 C02 C03 C04 C05 C06 C07 C08 C09 C10 C11 C12 C13 C14 C15 C16"}
for s in $seeds; do for p in $props; do
  out=$(VERIF_SEED=$s VERIF_NO_EVIDENCE=1 ./check $p --tier $tier 2>&1); rc=$?
  echo "seed=$s $p exit=$rc $(echo "$out" | grep -E '^\[C' | tail -1) $(echo "$out" | grep -E 'VIOLATION|INCONCLUSIVE' | head -2 | cut -c1-200)"
done; done
